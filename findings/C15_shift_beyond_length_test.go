package server

// Demonstration for the repaired defect C15 "(*server.LockManager).ProcessLockData/site/NewLockManagerData#*:C15.op.shift":
// a SHIFT whose length exceeds the stored payload was clamped to the length of the whole value frame
// (header included) instead of the payload, the new frame came out shorter than its own header and the
// header writes panicked with "index out of range" inside the key's critical section. A sequential
// interpreter shifts at most the payload and leaves an empty value.
// Run on a scratch copy:  tools/run_in_scratch.sh findings/C15_shift_beyond_length_test.go TestFindingC15ShiftBeyondLength

import (
	"testing"

	"github.com/snower/slock/protocol"
)

func TestFindingC15ShiftBeyondLength(t *testing.T) {
	testWithLockDB(t, func(db *LockDB) {
		for _, n := range []uint32{3, 4, 5, 9, 100} {
			func() {
				defer func() {
					if r := recover(); r != nil {
						t.Errorf("SHIFT %d on a 3-byte value: panic %v", n, r)
					}
				}()
				lockCommand := protocol.NewLockCommand(db.dbId, protocol.GenLockId(), protocol.GenLockId(), 10, 10, 0)
				lockCommand.Data = protocol.NewLockCommandDataSetString("abc")
				lockManager := db.GetOrNewLockManager(lockCommand)
				lock := lockManager.GetOrNewLock(defaultServerProtocol, lockCommand)
				lockManager.ProcessLockData(lockCommand, lock, false)
				lockCommand.Data = protocol.NewLockCommandDataShiftData(n)
				lockManager.ProcessLockData(lockCommand, lock, false)
				if v := lockManager.GetLockData(); len(v) != 6 {
					t.Errorf("SHIFT %d on a 3-byte value left %v, want an empty payload", n, v)
				}
			}()
		}
	})
}
