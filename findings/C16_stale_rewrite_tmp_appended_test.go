package server

// Demonstration for the repaired defect C16 "(*server.Aof).loadRewriteAofFiles/site/Open#1:C16.tmp.fresh" (reported with this scenario by a
// sub-agent writing seeded changes; reproduced and put under the clause here): the compaction writes its output to rewrite.aof.tmp,
// which AofFile.Open opens with O_CREATE|O_APPEND and never truncates. When a compaction died after writing the tmp file and before
// the first remove, the next compaction appended its output behind the stale one and renamed the sum into place: rewrite.aof held the
// LOCK records twice and the restart after it recovered a hold taken once at depth 2 (a hold released between the two compactions
// would have come back the same way). The repair removes a left-over tmp file (and its value file) before the output is opened.
// Run on a scratch copy:  tools/run_in_scratch.sh findings/C16_stale_rewrite_tmp_appended_test.go TestFindingC16StaleTmpAppended

import (
	"fmt"
	"io"
	"os"
	"path/filepath"
	"sort"
	"strings"
	"testing"
	"time"

	"github.com/jessevdk/go-flags"
	"github.com/snower/slock/protocol"
)

type findC16Res struct {
	result uint8
	lcount uint16
	rcount uint8
}

type findC16Node struct {
	s   *SLock
	db  *LockDB
	p   *MemWaiterServerProtocol
	res chan findC16Res
}

func findC16Start(t *testing.T, dir string) *findC16Node {
	cfg := &ServerConfig{}
	if _, err := flags.NewParser(cfg, flags.Default).ParseArgs([]string{}); err != nil {
		t.Fatalf("cfg %v", err)
	}
	cfg.DataDir = dir
	cfg.DBConcurrent = 1
	cfg.DBFastKeyCount = 64
	cfg.DBLockAofTime = 0
	cfg.LogLevel = "ERROR"
	logger, _ := InitLogger(cfg)
	s := NewSLock(cfg, logger)
	if err := s.initLeader(); err != nil {
		t.Fatalf("initLeader %v", err)
	}
	_ = s.aof.WaitRewriteAofFiles()
	n := &findC16Node{s: s, db: s.GetOrNewDB(0), res: make(chan findC16Res, 64)}
	n.p = NewMemWaiterServerProtocol(s)
	_ = n.p.SetResultCallback(func(_ *MemWaiterServerProtocol, _ *protocol.LockCommand, result uint8, lcount uint16, lrcount uint8, _ []byte) error {
		n.res <- findC16Res{result, lcount, lrcount}
		return nil
	})
	return n
}

func (n *findC16Node) stop() {
	n.flush()
	_ = n.p.Close()
	n.s.Close()
}

func (n *findC16Node) flush() {
	_ = n.s.aof.WaitFlushAofChannel()
	n.s.aof.FlushWithLocked()
}

func findC16Key(b byte) [16]byte {
	k := [16]byte{}
	for i := range k {
		k[i] = b
	}
	return k
}

func (n *findC16Node) cmd(ct uint8, key, id byte) *protocol.LockCommand {
	c := &protocol.LockCommand{}
	c.Magic, c.Version, c.CommandType = protocol.MAGIC, protocol.VERSION, ct
	c.RequestId = protocol.GenRequestId()
	c.LockKey, c.LockId = findC16Key(key), findC16Key(id)
	return c
}

func (n *findC16Node) do(t *testing.T, c *protocol.LockCommand) findC16Res {
	if err := n.p.ProcessLockCommand(c); err != nil {
		t.Fatalf("process %v", err)
	}
	select {
	case r := <-n.res:
		return r
	case <-time.After(5 * time.Second):
		t.Fatalf("no result")
	}
	return findC16Res{}
}

func (n *findC16Node) lock(t *testing.T, key, id byte, expried uint16, eflag uint16, count uint16, rcount uint8, flag uint8, data string) findC16Res {
	c := n.cmd(protocol.COMMAND_LOCK, key, id)
	c.Expried, c.ExpriedFlag, c.Count, c.Rcount, c.Flag = expried, eflag, count, rcount, flag
	if data != "" {
		c.Data = protocol.NewLockCommandDataSetString(data)
		c.Flag |= protocol.LOCK_FLAG_CONTAINS_DATA
	}
	return n.do(t, c)
}

func (n *findC16Node) unlock(t *testing.T, key, id byte, rcount uint8) findC16Res {
	c := n.cmd(protocol.COMMAND_UNLOCK, key, id)
	c.Rcount = rcount
	return n.do(t, c)
}

// rotate + compact synchronously
func (n *findC16Node) compact(t *testing.T) {
	n.flush()
	a := n.s.aof
	a.aofGlock.Lock()
	a.aofFileIndex = a.aofFileIndex // no-op
	err := a.RewriteAofFile(false)
	a.isWaitRewite = false
	a.aofGlock.Unlock()
	if err != nil {
		t.Fatalf("rotate %v", err)
	}
	a.rewriteAofFiles()
}

func (n *findC16Node) snap(keys ...byte) string {
	out := []string{}
	for _, k := range keys {
		c := &protocol.LockCommand{}
		c.LockKey = findC16Key(k)
		m := n.db.GetLockManager(c)
		if m == nil || m.locked == 0 {
			out = append(out, fmt.Sprintf("key %02x: free", k))
			continue
		}
		m.glock.LowPriorityLock()
		holds := []string{}
		add := func(l *Lock) {
			if l == nil || l.command == nil {
				return
			}
			holds = append(holds, fmt.Sprintf("{id %02x depth %d exp %d cnt %d rcnt %d}", l.command.LockId[0], l.locked, l.expriedTime, l.command.Count, l.command.Rcount))
		}
		add(m.currentLock)
		if m.locks != nil {
			for _, ls := range m.locks.IterNodes() {
				for _, l := range ls {
					if l != nil && l != m.currentLock && l.locked > 0 {
						add(l)
					}
				}
			}
		}
		sort.Strings(holds)
		d := "nil"
		if m.currentData != nil {
			d = fmt.Sprintf("%q", string(m.currentData.GetData()))
		}
		out = append(out, fmt.Sprintf("key %02x: locked %d data %s holds %s", k, m.locked, d, strings.Join(holds, " ")))
		m.glock.LowPriorityUnlock()
	}
	return strings.Join(out, "\n")
}

func findC16CopyDir(t *testing.T, src, dst string) {
	_ = os.MkdirAll(dst, 0755)
	ents, err := os.ReadDir(src)
	if err != nil {
		t.Fatalf("readdir %v", err)
	}
	for _, e := range ents {
		if e.IsDir() {
			continue
		}
		in, err := os.Open(filepath.Join(src, e.Name()))
		if err != nil {
			t.Fatalf("open %v", err)
		}
		o, err := os.Create(filepath.Join(dst, e.Name()))
		if err != nil {
			t.Fatalf("create %v", err)
		}
		_, _ = io.Copy(o, in)
		_ = in.Close()
		_ = o.Close()
	}
}

func findC16Ls(dir string) string {
	ents, _ := os.ReadDir(dir)
	out := []string{}
	for _, e := range ents {
		i, _ := e.Info()
		out = append(out, fmt.Sprintf("%s(%d)", e.Name(), i.Size()))
	}
	return strings.Join(out, " ")
}

func findC16Recover(t *testing.T, dir string, keys ...byte) string {
	n := findC16Start(t, dir)
	s := n.snap(keys...)
	n.stop()
	return s
}

func findC16Scenario(t *testing.T, keys []byte, work func(n *findC16Node)) (string, string, string) {
	base, _ := os.MkdirTemp("", "findC16c16")
	defer os.RemoveAll(base)
	live := filepath.Join(base, "live")
	n := findC16Start(t, live)
	work(n)
	n.flush()
	pre := filepath.Join(base, "pre")
	findC16CopyDir(t, live, pre)
	n.compact(t)
	ls := n.snap(keys...)
	post := filepath.Join(base, "post")
	findC16CopyDir(t, live, post)
	t.Log(findC16Ls(post))
	n.stop()
	a := findC16Recover(t, pre, keys...)
	b := findC16Recover(t, post, keys...)
	t.Log("live:\n" + ls)
	t.Log("pre:\n" + a)
	t.Log("post:\n" + b)
	return ls, a, b
}


// FINDING 1 (unchanged tree): a rewrite.aof.tmp left behind by an interrupted
// compaction is never truncated: AofFile.Open opens it O_APPEND, so the next
// compaction appends to the stale content and renames the mixture to
// rewrite.aof.  Records are duplicated (re-entrant depth 1 -> 2 below) and holds
// released in the meantime would be resurrected.
func TestFindingC16StaleTmpAppended(t *testing.T) {
	base, _ := os.MkdirTemp("", "findC16c16")
	defer os.RemoveAll(base)
	live := filepath.Join(base, "live")
	n := findC16Start(t, live)
	t.Log(n.lock(t, 1, 0xa1, 600, 0, 0, 3, 0, ""))
	n.flush()
	pre := filepath.Join(base, "pre")
	findC16CopyDir(t, live, pre)
	n.compact(t)
	n.stop()
	// crash image: the compaction wrote rewrite.aof.tmp completely and died before the first remove
	crash := filepath.Join(base, "crash")
	findC16CopyDir(t, pre, crash)
	findC16CopyDir(t, pre, filepath.Join(base, "crash0"))
	for _, sfx := range []string{"", ".dat"} {
		b, _ := os.ReadFile(filepath.Join(live, "rewrite.aof"+sfx))
		_ = os.WriteFile(filepath.Join(crash, "rewrite.aof.tmp"+sfx), b, 0644)
	}
	t.Log(findC16Ls(crash))
	want := findC16Recover(t, filepath.Join(base, "crash0"), 1)
	n2 := findC16Start(t, crash) // restart on the crash image: recovers correctly ...
	got1 := n2.snap(1)
	n2.compact(t) // ... but the next compaction appends to the stale tmp file
	n2.stop()
	t.Log(findC16Ls(crash))
	got2 := findC16Recover(t, crash, 1)
	t.Log("want:\n" + want)
	t.Log("after restart:\n" + got1)
	t.Log("after restart + compaction + restart:\n" + got2)
	if got2 != want {
		t.Errorf("compaction after an interrupted compaction changed the recoverable state")
	}
}

// FINDING 2 (unchanged tree): the value of a key is written into the LOCK record
// of the hold that set it.  When that hold is released while another hold of the
// key remains, the compaction drops the released hold's record - and with it
// the current value; the surviving record still carries the older value.
