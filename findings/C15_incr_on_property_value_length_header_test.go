package server

// Demonstration for a repaired defect of C15: "(*server.LockManager).ProcessLockData/site/NewLockManagerData#*:C15.op.incr-header"
// and "(*server.LockManager).ProcessRecoverLockData/site/NewLockManagerData#*:C15.recover.incr-header".
// An INCR whose operand is not exactly 8 bytes (e.g. one byte), applied to a value that carries a property block, rebuilds the
// value frame (length word, type, flags, property block, 8-byte number) without writing the 4-byte length word: the stored
// frame announces a body of 0 bytes. The same frame is handed to every later reader (GET replies, the value written to the
// log); the undo of such an INCR rebuilt the frame the same way. (First reported by the sub-agents of seeding round 5.)
// Run on a scratch copy:  tools/run_in_scratch.sh findings/C15_incr_on_property_value_length_header_test.go TestFindingC15Incr

import (
	"testing"

	"github.com/snower/slock/protocol"
)

func findC15FramePrefixOk(data []byte) bool {
	return len(data) >= 4 && int(uint32(data[0])|uint32(data[1])<<8|uint32(data[2])<<16|uint32(data[3])<<24) == len(data)-4
}

func TestFindingC15IncrOnPropertyValueHeader(t *testing.T) {
	testWithLockDB(t, func(db *LockDB) {
		props := []*protocol.LockCommandDataProperty{protocol.NewLockCommandDataProperty(protocol.LOCK_DATA_PROPERTY_CODE_KEY, []byte("k"))}
		lockKey := protocol.GenLockId()
		lockCommand := protocol.NewLockCommand(db.dbId, lockKey, protocol.GenLockId(), 10, 10, 0)
		lockCommand.Data = protocol.NewLockCommandDataIncrDataWithProperty(7, props)
		lockManager := db.GetOrNewLockManager(lockCommand)
		lock := lockManager.GetOrNewLock(defaultServerProtocol, lockCommand)
		lockManager.ProcessLockData(lockCommand, lock, false)
		lockManager.FreeLock(lock)
		if !findC15FramePrefixOk(lockManager.currentData.data) {
			t.Fatalf("setup: first frame % x", lockManager.currentData.data)
		}

		// operand of one byte: the frame is rebuilt from the stored one
		lockCommand = protocol.NewLockCommand(db.dbId, lockKey, protocol.GenLockId(), 10, 10, 0)
		lockCommand.Data = protocol.NewLockCommandDataFromBytes([]byte{5}, protocol.LOCK_DATA_STAGE_CURRENT, protocol.LOCK_DATA_COMMAND_TYPE_INCR, protocol.LOCK_DATA_FLAG_VALUE_TYPE_NUMBER, nil)
		lock = lockManager.GetOrNewLock(defaultServerProtocol, lockCommand)
		lockManager.ProcessLockData(lockCommand, lock, true)
		if got := lockManager.currentData.GetIncrValue(); got != 12 {
			t.Errorf("INCR 5 on 7 gives %d", got)
		}
		if !findC15FramePrefixOk(lockManager.currentData.data) {
			t.Errorf("after INCR: the stored frame announces a body of %d bytes, it has %d: % x", int(lockManager.currentData.data[0]), len(lockManager.currentData.data)-4, lockManager.currentData.data)
		}
		// and its undo (the hold was never acknowledged)
		lockManager.ProcessRecoverLockData(lock)
		if got := lockManager.currentData.GetIncrValue(); got != 7 {
			t.Errorf("undo of INCR 5 gives %d, want 7", got)
		}
		if !findC15FramePrefixOk(lockManager.currentData.data) {
			t.Errorf("after the undo: the stored frame announces a body of %d bytes, it has %d: % x", int(lockManager.currentData.data[0]), len(lockManager.currentData.data)-4, lockManager.currentData.data)
		}
	})
}
