package server

// Demonstration for the repaired defect C07 "(*server.Aof).GetAofLockExpriedTime/post:C07.life.persist":
// a hold taken with the longest expiry (65535 seconds, or 65535 minutes) and persisted in the second of its
// grant has 65536 seconds (resp. 65535 minutes and one second) left, because the engine adds one second to
// every deadline. The remaining lifetime was converted with uint16() and wrapped to 0, so the record said
// "no lifetime" and a restart gave the hold back with a deadline one second after the restart instead of
// hours (days) later. The fix clamps the stored lifetime to 0xffff.
// Run on a scratch copy:  tools/run_in_scratch.sh findings/C07_persisted_lifetime_wrap_test.go TestFindingC07PersistedLifetimeWrap

import (
	"testing"

	"github.com/snower/slock/protocol"
)

func TestFindingC07PersistedLifetimeWrap(t *testing.T) {
	aof := &Aof{}
	now := int64(1700000000)
	for _, c := range []struct {
		flag uint16
		unit int64
	}{{0, 1}, {protocol.EXPRIED_FLAG_MINUTE_TIME, 60}} {
		cmd := &protocol.LockCommand{ExpriedFlag: c.flag, Expried: 0xffff}
		deadline := now + int64(cmd.Expried)*c.unit + 1 // what AddLock computes at the grant
		lock := &Lock{expriedTime: deadline}
		rec := &AofLock{CommandTime: uint64(now), ExpriedFlag: c.flag}
		rec.ExpriedTime = aof.GetAofLockExpriedTime(cmd, lock, rec)
		// restart ten seconds later
		db := &LockDB{currentTime: now + 10}
		life := aof.GetLockCommandExpriedTime(db, rec)
		restored := db.currentTime + int64(life)*c.unit + 1
		if d := restored - deadline; d > c.unit+1 || d < -(c.unit + 1) {
			t.Errorf("unit %ds: stored lifetime %d, restored deadline is %d seconds away from the original", c.unit, rec.ExpriedTime, d)
		}
	}
}
