package server

// Demonstration for the repaired defects C13 "safe/(*protocol.TextCommandConverter).ConvertArgs2Flag/index:args[i+1]",
// ".../ConvertTextSetEXCommand/index:args[3]" and "safe/(*server.TextServerProtocol).commandHandlerScanCommand/
// index:args[i+1]": RESP commands whose option lacks its value (SET k v EX, SET k v PX, SETEX k 10,
// PSETEX k 1, SCAN 0 MATCH) indexed past the argument list; nothing recovers on the connection goroutine,
// so one line from a client ended the process. With the fixes the command is refused with an error reply.
// Run on a scratch copy:  tools/run_in_scratch.sh findings/C13_text_missing_option_value_test.go TestFindingC13TextMissingOptionValue

import (
	"fmt"
	"net"
	"strings"
	"testing"
	"time"

	"github.com/jessevdk/go-flags"
)

func respCommand(args ...string) string {
	var b strings.Builder
	fmt.Fprintf(&b, "*%d\r\n", len(args))
	for _, a := range args {
		fmt.Fprintf(&b, "$%d\r\n%s\r\n", len(a), a)
	}
	return b.String()
}

func TestFindingC13TextMissingOptionValue(t *testing.T) {
	serverConfig := &ServerConfig{}
	if _, err := flags.NewParser(serverConfig, flags.Default).ParseArgs([]string{}); err != nil {
		t.Fatal(err)
	}
	logger, _ := InitLogger(serverConfig)
	slock := NewSLock(serverConfig, logger)
	slock.state = STATE_LEADER
	for _, c := range [][]string{{"SET", "k", "v", "EX"}, {"SET", "k", "v", "PX"}, {"SETEX", "k", "10"}, {"PSETEX", "k", "1"}, {"SCAN", "0", "MATCH"}, {"SCAN", "0", "COUNT"}} {
		client, server := net.Pipe()
		sp := NewTextServerProtocol(slock, NewStream(server))
		done := make(chan interface{}, 1)
		go func() {
			defer func() { done <- recover() }()
			_ = sp.Process()
		}()
		go func() {
			buf := make([]byte, 4096)
			for {
				if _, err := client.Read(buf); err != nil {
					return
				}
			}
		}()
		_ = client.SetDeadline(time.Now().Add(time.Second))
		_, _ = client.Write([]byte(respCommand(c...)))
		time.Sleep(30 * time.Millisecond)
		_ = client.Close()
		select {
		case r := <-done:
			if r != nil {
				t.Errorf("%q: the connection goroutine panicked: %v", c, r)
			}
		case <-time.After(3 * time.Second):
			t.Errorf("%q: Process did not return", c)
		}
	}
}
