package server

// Demonstration for the repaired defect C18 "(*server.TransparencyBinaryServerProtocol).Close/site/Close#*:C18.transparency.wills-kept" (reported with this
// probe by a sub-agent writing seeded changes; reproduced and put under the clause here): a connection accepted while the node was a follower is wrapped in
// the transparency protocol. At close that wrapper takes the wills registered on the inner protocol and forwards them to the leader - if a connection to the
// leader can be had. When it cannot (the node has become leader itself, or the leader is unreachable) the wills were simply dropped: the inner protocol's
// Close found none. A client that registered WILL_LOCK on such a connection and disconnected after the node's promotion left the key unlocked.
// With the repair wills that could not be forwarded stay registered and the inner protocol's Close runs them (which succeeds when this node is the leader).
// Run on a scratch copy:  tools/run_in_scratch.sh findings/C18_transparency_will_dropped_test.go TestFindingC18TransparencyWillAfterPromotion

import (
	"io"
	"net"
	"testing"
	"time"

	"github.com/jessevdk/go-flags"
	"github.com/snower/slock/protocol"
)

func findC18TrSLock(t *testing.T) (*SLock, *Server, *LockDB) {
	serverConfig := &ServerConfig{}
	parse := flags.NewParser(serverConfig, flags.Default)
	if _, err := parse.ParseArgs([]string{}); err != nil {
		t.Fatalf("config parse fail %v", err)
	}
	serverConfig.DataDir = t.TempDir()
	serverConfig.DBConcurrent = 1
	serverConfig.DBFastKeyCount = 64
	logger, _ := InitLogger(serverConfig)
	slock := NewSLock(serverConfig, logger)
	slock.state = STATE_LEADER
	server := NewServer(slock)
	db := slock.GetOrNewDB(0)
	db.status = STATE_LEADER
	return slock, server, db
}

func findC18TrHeld(t *testing.T, slock *SLock, lockKey string) bool {
	results := make([]uint8, 0)
	waiter := NewMemWaiterServerProtocol(slock)
	defer waiter.Close()
	_ = waiter.SetResultCallback(func(_ *MemWaiterServerProtocol, _ *protocol.LockCommand, result uint8, _ uint16, _ uint8, _ []byte) error {
		results = append(results, result)
		return nil
	})
	lockId := protocol.GenLockId()
	probe := &protocol.LockCommand{Command: protocol.Command{Magic: protocol.MAGIC, Version: protocol.VERSION, CommandType: protocol.COMMAND_LOCK,
		RequestId: protocol.GenRequestId()}, DbId: 0, LockId: lockId, Timeout: 0, Expried: 30}
	copy(probe.LockKey[:], lockKey)
	_ = waiter.ProcessLockCommand(probe)
	if results[0] == protocol.RESULT_TIMEOUT {
		return true
	}
	unlock := &protocol.LockCommand{Command: protocol.Command{Magic: protocol.MAGIC, Version: protocol.VERSION, CommandType: protocol.COMMAND_UNLOCK,
		RequestId: protocol.GenRequestId()}, DbId: 0, LockId: lockId}
	copy(unlock.LockKey[:], lockKey)
	_ = waiter.ProcessLockCommand(unlock)
	return false
}

// Probe B: connection wrapped in the transparency protocol (accepted while follower), node is leader by the time
// the will is registered and the connection ends
func TestFindingC18TransparencyWillAfterPromotion(t *testing.T) {
	slock, _, db := findC18TrSLock(t)
	defer db.Close()

	serverConn, clientConn := net.Pipe()
	stream := NewStream(serverConn)
	inner := NewBinaryServerProtocol(slock, stream)
	wrapper := NewTransparencyBinaryServerProtocol(slock, stream, inner)
	processed := make(chan error, 1)
	go func() {
		// what Server.handle does for a *TransparencyBinaryServerProtocol once state == STATE_LEADER
		processed <- inner.Process()
	}()
	_ = clientConn.SetDeadline(time.Now().Add(20 * time.Second))

	key := "will-key-00000BB"
	will := &protocol.LockCommand{Command: protocol.Command{Magic: protocol.MAGIC, Version: protocol.VERSION, CommandType: protocol.COMMAND_WILL_LOCK,
		RequestId: protocol.GenRequestId()}, DbId: 0, LockId: protocol.GenLockId(), Timeout: 5, Expried: 60}
	copy(will.LockKey[:], key)
	buf := make([]byte, 64)
	_ = will.Encode(buf)
	if _, err := clientConn.Write(buf); err != nil {
		t.Fatal(err)
	}
	// a PING round trip makes sure the will frame has been processed
	_ = protocol.NewPingCommand().Encode(buf)
	if _, err := clientConn.Write(buf); err != nil {
		t.Fatal(err)
	}
	if _, err := io.ReadFull(clientConn, buf); err != nil {
		t.Fatal(err)
	}
	_ = clientConn.Close()
	select {
	case <-processed:
	case <-time.After(20 * time.Second):
		t.Fatalf("process did not finish")
	}
	_ = wrapper.Close()
	if !findC18TrHeld(t, slock, key) {
		t.Errorf("will dropped by TransparencyBinaryServerProtocol.Close when node is leader")
	}
}
