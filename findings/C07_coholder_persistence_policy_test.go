package server

// Demonstration for the recorded finding C07 "(*server.LockManager).AddLock/post:C07.grant.own-policy" (reported by a sub-agent writing
// seeded changes; reproduced here at the function that decides it): a hold that joins a key which already has a holder takes its
// persistence policy from the key's oldest holder (lock.aofTime = currentLock.aofTime), not from its own flags. A second holder
// asking to be persisted immediately (expiry flag 0x0100) on a key whose first holder asked never to be persisted (0x0200) is never
// written to the log and is not restored by a restart; the other way round a never-persist hold is written and restored.
// Not repaired: the copy is deliberate (one policy per key); changing it changes what every shared key persists.
// Run on a scratch copy:  tools/run_in_scratch.sh findings/C07_coholder_persistence_policy_test.go TestFindingC07CoHolderPersistencePolicy

import (
	"testing"

	"github.com/snower/slock/protocol"
)

func TestFindingC07CoHolderPersistencePolicy(t *testing.T) {
	testWithLockDB(t, func(db *LockDB) {
		p := NewMemWaiterServerProtocol(db.slock)
		defer p.Close()
		_ = p.SetResultCallback(func(_ *MemWaiterServerProtocol, _ *protocol.LockCommand, _ uint8, _ uint16, _ uint8, _ []byte) error { return nil })
		lockKey := protocol.GenLockId()
		a := protocol.NewLockCommand(db.dbId, lockKey, protocol.GenLockId(), 0, 300, 1)
		a.ExpriedFlag |= protocol.EXPRIED_FLAG_UNLIMITED_AOF_TIME // never persist
		_ = db.Lock(p, a, 0)
		b := protocol.NewLockCommand(db.dbId, lockKey, protocol.GenLockId(), 0, 300, 1)
		b.ExpriedFlag |= protocol.EXPRIED_FLAG_ZEOR_AOF_TIME // persist immediately
		_ = db.Lock(p, b, 0)
		lockManager := db.GetLockManager(a)
		holdB := lockManager.GetLockedLock(b)
		if holdB == nil {
			t.Fatalf("second holder not granted")
		}
		if holdB.aofTime != 0 {
			t.Errorf("hold taken with the persist-immediately flag has persistence delay %d (the first holder's never-persist policy), want 0", holdB.aofTime)
		}
		for _, c := range []*protocol.LockCommand{a, b} {
			u := protocol.NewLockCommand(db.dbId, lockKey, c.LockId, 0, 0, 0)
			u.CommandType = protocol.COMMAND_UNLOCK
			_ = db.UnLock(p, u, 0)
		}
	})
}
