// Demonstration of the genuine defect behind obligation
//   (*server.LockDB).doTimeOut/post:C04.timeout.wake-waiter  and  (*server.LockDB).cancelWaitLock (waiter case)
// Belongs in server/ (in-package test). Run: go test -vet=off -count=1 -run 'TestVerifFindingC04' ./server
//
// A holder H (Count 5) holds the key. W1 (Count 0) queues: it is not admissible while anything is held.
// W2 (Count 5) queues behind W1: it would be admissible (1 hold <= 5) but waits its turn behind W1.
// When W1 leaves the queue by time-out (or by a cancel-wait unlock) the head of the queue becomes W2,
// which is admissible - no wake pass runs, so at the following quiescent moment an admissible request
// sits at the head of the queue (property C04).
package server

import (
	"testing"

	"github.com/jessevdk/go-flags"
	"github.com/snower/slock/protocol"
)

func verifFindingC04Command(commandType uint8, id byte, count uint16, flag uint8) *protocol.LockCommand {
	command := &protocol.LockCommand{}
	command.Magic = protocol.MAGIC
	command.Version = protocol.VERSION
	command.CommandType = commandType
	command.RequestId = protocol.GenRequestId()
	command.Flag = flag
	command.LockKey = [16]byte{'v', 'f', 'c', '0', '4'}
	command.LockId = [16]byte{'i', 'd', id}
	command.Timeout = 50
	command.Expried = 50
	command.ExpriedFlag = protocol.EXPRIED_FLAG_UNLIMITED_AOF_TIME
	command.Count = count
	return command
}

func verifFindingC04Run(t *testing.T, leave func(db *LockDB, sp *MemWaiterServerProtocol, w1 *Lock)) {
	serverConfig := &ServerConfig{}
	if _, err := flags.NewParser(serverConfig, flags.Default).ParseArgs([]string{}); err != nil {
		t.Fatal(err)
	}
	logger, _ := InitLogger(serverConfig)
	slock := NewSLock(serverConfig, logger)
	slock.state = STATE_LEADER
	db := NewLockDB(slock, 0)
	defer db.Close()
	sp := NewMemWaiterServerProtocol(slock)
	answered := map[[16]byte]uint8{}
	_ = sp.SetResultCallback(func(_ *MemWaiterServerProtocol, command *protocol.LockCommand, result uint8, _ uint16, _ uint8, _ []byte) error {
		answered[command.LockId] = result
		return nil
	})
	h := verifFindingC04Command(protocol.COMMAND_LOCK, 'H', 5, 0)
	_ = db.Lock(sp, h, 0)
	w1 := verifFindingC04Command(protocol.COMMAND_LOCK, '1', 0, 0)
	w1Id := w1.LockId
	_ = db.Lock(sp, w1, 0)
	w2 := verifFindingC04Command(protocol.COMMAND_LOCK, '2', 5, 0)
	w2Id := w2.LockId
	_ = db.Lock(sp, w2, 0)
	manager := db.GetLockManager(h)
	if manager == nil || manager.locked != 1 {
		t.Fatalf("setup: one holder expected")
	}
	if _, ok := answered[w1Id]; ok {
		t.Fatalf("setup: W1 must be queued")
	}
	if _, ok := answered[w2Id]; ok {
		t.Fatalf("setup: W2 must be queued behind W1")
	}
	manager.glock.Lock()
	w1Lock := manager.GetWaitLock()
	manager.glock.Unlock()
	if w1Lock == nil || w1Lock.command.LockId != w1Id {
		t.Fatalf("setup: W1 must be the head of the queue")
	}
	leave(db, sp, w1Lock)
	if _, ok := answered[w1Id]; !ok {
		t.Fatalf("W1 was not answered")
	}
	manager.glock.Lock()
	head := manager.GetWaitLock()
	admissible := head != nil && db.doLock(manager, head)
	manager.glock.Unlock()
	if admissible {
		t.Errorf("lost wake-up: head waiter %q is admissible (holds=%d, its Count=%d) but still queued", head.command.LockId[:3], manager.locked, head.command.Count)
	}
	if r, ok := answered[w2Id]; !ok || r != protocol.RESULT_SUCCED {
		t.Errorf("W2 was not granted after W1 left the queue (answered=%v result=%d)", ok, r)
	}
}

func TestVerifFindingC04WaiterTimeout(t *testing.T) {
	verifFindingC04Run(t, func(db *LockDB, sp *MemWaiterServerProtocol, w1 *Lock) {
		db.doTimeOut(w1, true, false) // what the sweeper does when W1's timeout elapses
	})
}

func TestVerifFindingC04WaiterCancelled(t *testing.T) {
	verifFindingC04Run(t, func(db *LockDB, sp *MemWaiterServerProtocol, w1 *Lock) {
		cancel := verifFindingC04Command(protocol.COMMAND_UNLOCK, '1', 0, protocol.UNLOCK_FLAG_CANCEL_WAIT_LOCK_WHEN_UNLOCKED)
		_ = db.UnLock(sp, cancel, 0)
	})
}
