package server

// Demonstration for the repaired defect C15/C11 "(*server.LockManager).ProcessRecoverLockData/site/NewLockManagerData#3:C15.recover.shift-header"
// (reported by a sub-agent writing seeded changes, reproduced and put under the clause here): rolling back a SHIFT on a value that
// carries a property block rebuilt the frame with the block's flag but without the block's bytes (data[6:valueOffset] was never
// copied), so a refused SHIFT did not leave the value unchanged: readers saw the payload shifted by zero bytes of a missing block.
// Scenario: holder A sets "hello" with a KEY property; B asks for the key with SHIFT 2 and the require-ack flag; the acknowledgement
// is negative. The value must be byte for byte what it was before B's request.
// Run on a scratch copy:  tools/run_in_scratch.sh findings/C15_shift_rollback_property_block_test.go TestFindingC15ShiftRollbackKeepsPropertyBlock

import (
	"bytes"
	"testing"

	"github.com/snower/slock/protocol"
)

func TestFindingC15ShiftRollbackKeepsPropertyBlock(t *testing.T) {
	testWithLockDB(t, func(db *LockDB) {
		results := make([]uint8, 0)
		p := NewMemWaiterServerProtocol(db.slock)
		defer p.Close()
		_ = p.SetResultCallback(func(_ *MemWaiterServerProtocol, _ *protocol.LockCommand, result uint8, _ uint16, _ uint8, _ []byte) error {
			results = append(results, result)
			return nil
		})
		lockKey := protocol.GenLockId()
		setCommand := protocol.NewLockCommand(db.dbId, lockKey, protocol.GenLockId(), 0, 60, 10)
		setCommand.Flag |= protocol.LOCK_FLAG_CONTAINS_DATA
		setCommand.Data = protocol.NewLockCommandDataSetStringWithProperty("hello", []*protocol.LockCommandDataProperty{
			protocol.NewLockCommandDataProperty(protocol.LOCK_DATA_PROPERTY_CODE_KEY, []byte("mykey"))})
		_ = db.Lock(p, setCommand, 0)
		if len(results) != 1 || results[0] != protocol.RESULT_SUCCED {
			t.Fatalf("set refused: %v", results)
		}
		lockManager := db.GetLockManager(setCommand)
		before := append([]byte{}, lockManager.GetLockData()...)

		shiftCommand := protocol.NewLockCommand(db.dbId, lockKey, protocol.GenLockId(), 5, 60, 10)
		shiftCommand.Flag |= protocol.LOCK_FLAG_CONTAINS_DATA
		shiftCommand.TimeoutFlag |= protocol.TIMEOUT_FLAG_REQUIRE_ACKED
		shiftCommand.Data = protocol.NewLockCommandDataShiftData(2)
		_ = db.Lock(p, shiftCommand, 0)
		shiftLock := lockManager.GetLockedLock(shiftCommand)
		if shiftLock == nil || shiftLock.ackCount == 0xff {
			t.Fatalf("expected an ack-pending hold")
		}
		if got := protocol.NewLockResultCommandDataFromOriginBytes(lockManager.GetLockData()).GetStringValue(); got != "llo" {
			t.Fatalf("while the acknowledgement is pending the value should be \"llo\", got %q", got)
		}
		db.DoAckLock(shiftLock, false)
		if len(results) != 2 || results[1] != protocol.RESULT_ERROR {
			t.Fatalf("expected RESULT_ERROR for the refused request: %v", results)
		}
		after := lockManager.GetLockData()
		if !bytes.Equal(before, after) {
			t.Errorf("a refused SHIFT must leave the value unchanged:\n before %v\n after  %v", before, after)
		}
		if got := protocol.NewLockResultCommandDataFromOriginBytes(after).GetStringValue(); got != "hello" {
			t.Errorf("value after the refused SHIFT reads %q, want \"hello\"", got)
		}
		u := protocol.NewLockCommand(db.dbId, lockKey, setCommand.LockId, 0, 0, 0)
		u.CommandType = protocol.COMMAND_UNLOCK
		_ = db.UnLock(p, u, 0)
	})
}
