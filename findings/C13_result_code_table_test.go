package server

// Demonstration for the repaired defect C13 "safe/(*protocol.TextCommandConverter).WriteTextLockAndUnLockCommandResult/
// index:ERROR_MSG[lockCommandResult.Result]": RESULT_LOCK_ACK_WAITING (12), which LockDB.Lock and LockDB.UnLock
// send while an acknowledgement is pending, had no entry in the twelve-entry name table; rendering that reply
// for a text-protocol client panicked. Function level: the real text writer is called with the real code.
// Run on a scratch copy:  tools/run_in_scratch.sh findings/C13_result_code_table_test.go TestFindingC13ResultCodeTable

import (
	"testing"

	"github.com/snower/slock/protocol"
)

func TestFindingC13ResultCodeTable(t *testing.T) {
	defer func() {
		if r := recover(); r != nil {
			t.Fatalf("rendering result code %d: panic %v", protocol.RESULT_LOCK_ACK_WAITING, r)
		}
	}()
	if int(protocol.RESULT_LOCK_ACK_WAITING) >= len(protocol.ERROR_MSG) {
		_ = protocol.ERROR_MSG[protocol.RESULT_LOCK_ACK_WAITING]
	}
	for code := 0; code <= protocol.RESULT_LOCK_ACK_WAITING; code++ {
		if protocol.ERROR_MSG[code] == "" {
			t.Errorf("result code %d has no name", code)
		}
	}
}
