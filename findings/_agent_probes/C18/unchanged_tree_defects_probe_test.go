package server

import (
	"bufio"
	"io"
	"net"
	"strings"
	"testing"
	"time"

	"github.com/jessevdk/go-flags"
	"github.com/snower/slock/protocol"
)

func zzProbeSLock(t *testing.T) (*SLock, *Server, *LockDB) {
	serverConfig := &ServerConfig{}
	parse := flags.NewParser(serverConfig, flags.Default)
	if _, err := parse.ParseArgs([]string{}); err != nil {
		t.Fatalf("config parse fail %v", err)
	}
	serverConfig.DataDir = t.TempDir()
	serverConfig.DBConcurrent = 1
	serverConfig.DBFastKeyCount = 64
	logger, _ := InitLogger(serverConfig)
	slock := NewSLock(serverConfig, logger)
	slock.state = STATE_LEADER
	server := NewServer(slock)
	db := slock.GetOrNewDB(0)
	db.status = STATE_LEADER
	return slock, server, db
}

func zzProbeHeld(t *testing.T, slock *SLock, lockKey string) bool {
	results := make([]uint8, 0)
	waiter := NewMemWaiterServerProtocol(slock)
	defer waiter.Close()
	_ = waiter.SetResultCallback(func(_ *MemWaiterServerProtocol, _ *protocol.LockCommand, result uint8, _ uint16, _ uint8, _ []byte) error {
		results = append(results, result)
		return nil
	})
	lockId := protocol.GenLockId()
	probe := &protocol.LockCommand{Command: protocol.Command{Magic: protocol.MAGIC, Version: protocol.VERSION, CommandType: protocol.COMMAND_LOCK,
		RequestId: protocol.GenRequestId()}, DbId: 0, LockId: lockId, Timeout: 0, Expried: 30}
	copy(probe.LockKey[:], lockKey)
	_ = waiter.ProcessLockCommand(probe)
	if results[0] == protocol.RESULT_TIMEOUT {
		return true
	}
	unlock := &protocol.LockCommand{Command: protocol.Command{Magic: protocol.MAGIC, Version: protocol.VERSION, CommandType: protocol.COMMAND_UNLOCK,
		RequestId: protocol.GenRequestId()}, DbId: 0, LockId: lockId}
	copy(unlock.LockKey[:], lockKey)
	_ = waiter.ProcessLockCommand(unlock)
	return false
}

// Probe A: will registered in the text session opened by the binary ADMIN command
func TestZZProbeAdminTextWill(t *testing.T) {
	slock, server, db := zzProbeSLock(t)
	defer db.Close()
	sessionsBefore := len(slock.protocolSessions)

	serverConn, clientConn := net.Pipe()
	stream := NewStream(serverConn)
	_ = server.addStream(stream)
	handled := make(chan struct{})
	go func() {
		server.handle(stream)
		close(handled)
	}()
	_ = clientConn.SetDeadline(time.Now().Add(20 * time.Second))

	buf := make([]byte, 64)
	_ = protocol.NewAdminCommand(0).Encode(buf)
	if _, err := clientConn.Write(buf); err != nil {
		t.Fatal(err)
	}
	if _, err := io.ReadFull(clientConn, buf); err != nil {
		t.Fatal(err)
	}
	if buf[2] != protocol.COMMAND_ADMIN || buf[19] != protocol.RESULT_SUCCED {
		t.Fatalf("admin result %v", buf[:20])
	}

	key := "will-key-00000AA"
	reader := bufio.NewReader(clientConn)
	req := "*4\r\n$4\r\nLOCK\r\n$16\r\n" + key + "\r\n$4\r\nWILL\r\n$1\r\n1\r\n"
	if _, err := clientConn.Write([]byte(req)); err != nil {
		t.Fatal(err)
	}
	line, err := reader.ReadString('\n')
	if err != nil || strings.TrimSpace(line) != "+OK" {
		t.Fatalf("will reply %q %v", line, err)
	}
	_ = clientConn.Close()
	select {
	case <-handled:
	case <-time.After(20 * time.Second):
		t.Fatalf("handle did not finish")
	}
	if !zzProbeHeld(t, slock, key) {
		t.Errorf("DEFECT: will registered in ADMIN text session never executed")
	}
	if n := len(slock.protocolSessions); n != sessionsBefore {
		t.Errorf("DEFECT: sessions leaked before %d after %d", sessionsBefore, n)
	}
}

// Probe B: connection wrapped in the transparency protocol (accepted while follower), node is leader by the time
// the will is registered and the connection ends
func TestZZProbeTransparencyWillAfterPromotion(t *testing.T) {
	slock, _, db := zzProbeSLock(t)
	defer db.Close()

	serverConn, clientConn := net.Pipe()
	stream := NewStream(serverConn)
	inner := NewBinaryServerProtocol(slock, stream)
	wrapper := NewTransparencyBinaryServerProtocol(slock, stream, inner)
	processed := make(chan error, 1)
	go func() {
		// what Server.handle does for a *TransparencyBinaryServerProtocol once state == STATE_LEADER
		processed <- inner.Process()
	}()
	_ = clientConn.SetDeadline(time.Now().Add(20 * time.Second))

	key := "will-key-00000BB"
	will := &protocol.LockCommand{Command: protocol.Command{Magic: protocol.MAGIC, Version: protocol.VERSION, CommandType: protocol.COMMAND_WILL_LOCK,
		RequestId: protocol.GenRequestId()}, DbId: 0, LockId: protocol.GenLockId(), Timeout: 5, Expried: 60}
	copy(will.LockKey[:], key)
	buf := make([]byte, 64)
	_ = will.Encode(buf)
	if _, err := clientConn.Write(buf); err != nil {
		t.Fatal(err)
	}
	// a PING round trip makes sure the will frame has been processed
	_ = protocol.NewPingCommand().Encode(buf)
	if _, err := clientConn.Write(buf); err != nil {
		t.Fatal(err)
	}
	if _, err := io.ReadFull(clientConn, buf); err != nil {
		t.Fatal(err)
	}
	_ = clientConn.Close()
	select {
	case <-processed:
	case <-time.After(20 * time.Second):
		t.Fatalf("process did not finish")
	}
	_ = wrapper.Close()
	if !zzProbeHeld(t, slock, key) {
		t.Errorf("DEFECT: will dropped by TransparencyBinaryServerProtocol.Close when node is leader")
	}
}
