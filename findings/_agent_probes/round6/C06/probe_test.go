package server

import (
	"sync"
	"testing"
	"time"

	"github.com/snower/slock/protocol"
)

type zzProbeReply struct {
	result uint8
	at     time.Time
}

func zzProbeProtocol(db *LockDB) (*MemWaiterServerProtocol, func([16]byte) (zzProbeReply, bool)) {
	glock := &sync.Mutex{}
	replies := make(map[[16]byte][]zzProbeReply)
	serverProtocol := NewMemWaiterServerProtocol(db.slock)
	_ = serverProtocol.SetResultCallback(func(_ *MemWaiterServerProtocol, command *protocol.LockCommand, result uint8, _ uint16, _ uint8, _ []byte) error {
		glock.Lock()
		replies[command.RequestId] = append(replies[command.RequestId], zzProbeReply{result, time.Now()})
		glock.Unlock()
		return nil
	})
	return serverProtocol, func(requestId [16]byte) (zzProbeReply, bool) {
		glock.Lock()
		defer glock.Unlock()
		rs := replies[requestId]
		if len(rs) == 0 {
			return zzProbeReply{}, false
		}
		return rs[len(rs)-1], true
	}
}

// Probe A (unchanged tree): a hold with a millisecond expiry (2000 ms) is re-locked
// (re-entrant, Rcount 5) 1000 ms after the grant, which is answered SUCCED and
// restarts the period, so the hold must last until 3000 ms after the first grant.
// The hold stays filed in the millisecond wheel slot of the FIRST deadline and
// is expired there.
func TestZZProbeMillisecondHoldRelockKeepsOldDeadline(t *testing.T) {
	testWithLockDB(t, func(db *LockDB) {
		serverProtocol, lastReply := zzProbeProtocol(db)
		lockKey := [16]byte{'z', 'z', 'p', 'r', 'o', 'b', 'e', 'A'}
		lockId := [16]byte{'h', 'o', 'l', 'd', 'e', 'r'}
		flag := uint16(protocol.EXPRIED_FLAG_MILLISECOND_TIME | protocol.EXPRIED_FLAG_UNLIMITED_AOF_TIME)

		first := &protocol.LockCommand{Command: protocol.Command{Magic: protocol.MAGIC, Version: protocol.VERSION, CommandType: protocol.COMMAND_LOCK, RequestId: [16]byte{'r', '1'}},
			DbId: 0, LockId: lockId, LockKey: lockKey, Rcount: 5, Expried: 2000, ExpriedFlag: flag}
		_ = db.Lock(serverProtocol, first, 1)
		if r, ok := lastReply(first.RequestId); !ok || r.result != protocol.RESULT_SUCCED {
			t.Fatalf("lock not granted %v %v", ok, r.result)
		}

		time.Sleep(1000 * time.Millisecond)
		second := &protocol.LockCommand{Command: protocol.Command{Magic: protocol.MAGIC, Version: protocol.VERSION, CommandType: protocol.COMMAND_LOCK, RequestId: [16]byte{'r', '2'}},
			DbId: 0, LockId: lockId, LockKey: lockKey, Rcount: 5, Expried: 2000, ExpriedFlag: flag}
		relockedAt := time.Now()
		_ = db.Lock(serverProtocol, second, 1)
		if r, ok := lastReply(second.RequestId); !ok || r.result != protocol.RESULT_SUCCED {
			t.Fatalf("re-lock not granted %v %v", ok, r.result)
		}

		deadline := relockedAt.Add(4500 * time.Millisecond)
		for time.Now().Before(deadline) {
			// after the re-lock the hold's command is the second one
			if r, _ := lastReply(second.RequestId); r.result == protocol.RESULT_EXPRIED {
				if r.at.Sub(relockedAt) < 2000*time.Millisecond {
					t.Fatalf("hold re-locked for 2000 ms was ended %v after the re-lock", r.at.Sub(relockedAt))
				}
				return
			}
			time.Sleep(20 * time.Millisecond)
		}
		t.Fatalf("no EXPRIED within 4.5 s of the re-lock")
	})
}

// Probe B (unchanged tree): same with LOCK_FLAG_UPDATE_WHEN_LOCKED and a changed Count
// (so that the update is not treated as a no-op).
func TestZZProbeMillisecondHoldUpdateKeepsOldDeadline(t *testing.T) {
	testWithLockDB(t, func(db *LockDB) {
		serverProtocol, lastReply := zzProbeProtocol(db)
		lockKey := [16]byte{'z', 'z', 'p', 'r', 'o', 'b', 'e', 'B'}
		lockId := [16]byte{'h', 'o', 'l', 'd', 'e', 'r'}
		flag := uint16(protocol.EXPRIED_FLAG_MILLISECOND_TIME | protocol.EXPRIED_FLAG_UNLIMITED_AOF_TIME)

		first := &protocol.LockCommand{Command: protocol.Command{Magic: protocol.MAGIC, Version: protocol.VERSION, CommandType: protocol.COMMAND_LOCK, RequestId: [16]byte{'r', '1'}},
			DbId: 0, LockId: lockId, LockKey: lockKey, Count: 0, Expried: 2000, ExpriedFlag: flag}
		_ = db.Lock(serverProtocol, first, 1)
		if r, ok := lastReply(first.RequestId); !ok || r.result != protocol.RESULT_SUCCED {
			t.Fatalf("lock not granted %v %v", ok, r.result)
		}

		time.Sleep(1000 * time.Millisecond)
		second := &protocol.LockCommand{Command: protocol.Command{Magic: protocol.MAGIC, Version: protocol.VERSION, CommandType: protocol.COMMAND_LOCK, RequestId: [16]byte{'r', '2'}},
			Flag: protocol.LOCK_FLAG_UPDATE_WHEN_LOCKED, DbId: 0, LockId: lockId, LockKey: lockKey, Count: 1, Expried: 2000, ExpriedFlag: flag}
		updatedAt := time.Now()
		_ = db.Lock(serverProtocol, second, 1)
		if r, ok := lastReply(second.RequestId); !ok || r.result != protocol.RESULT_LOCKED_ERROR {
			t.Fatalf("update not answered LOCKED_ERROR %v %v", ok, r.result)
		}

		deadline := updatedAt.Add(4500 * time.Millisecond)
		for time.Now().Before(deadline) {
			if r, _ := lastReply(second.RequestId); r.result == protocol.RESULT_EXPRIED {
				if r.at.Sub(updatedAt) < 2000*time.Millisecond {
					t.Fatalf("hold updated to 2000 ms was ended %v after the update", r.at.Sub(updatedAt))
				}
				return
			}
			time.Sleep(20 * time.Millisecond)
		}
		t.Fatalf("no EXPRIED within 4.5 s of the update")
	})
}

// Probe C (unchanged tree): unlimited-expiry flag together with the millisecond unit flag.
func TestZZProbeUnlimitedWithMillisecondFlagIsEndedByTime(t *testing.T) {
	testWithLockDB(t, func(db *LockDB) {
		serverProtocol, lastReply := zzProbeProtocol(db)
		lockKey := [16]byte{'z', 'z', 'p', 'r', 'o', 'b', 'e', 'C'}
		lockId := [16]byte{'h', 'o', 'l', 'd', 'e', 'r'}
		flag := uint16(protocol.EXPRIED_FLAG_UNLIMITED_EXPRIED_TIME | protocol.EXPRIED_FLAG_MILLISECOND_TIME | protocol.EXPRIED_FLAG_UNLIMITED_AOF_TIME)

		first := &protocol.LockCommand{Command: protocol.Command{Magic: protocol.MAGIC, Version: protocol.VERSION, CommandType: protocol.COMMAND_LOCK, RequestId: [16]byte{'r', '1'}},
			DbId: 0, LockId: lockId, LockKey: lockKey, Expried: 500, ExpriedFlag: flag}
		grantedAt := time.Now()
		_ = db.Lock(serverProtocol, first, 1)
		if r, ok := lastReply(first.RequestId); !ok || r.result != protocol.RESULT_SUCCED {
			t.Fatalf("lock not granted %v %v", ok, r.result)
		}
		time.Sleep(2500 * time.Millisecond)
		if r, _ := lastReply(first.RequestId); r.result == protocol.RESULT_EXPRIED {
			t.Fatalf("hold with the unlimited-expiry flag was ended by time %v after the grant", r.at.Sub(grantedAt))
		}
	})
}
