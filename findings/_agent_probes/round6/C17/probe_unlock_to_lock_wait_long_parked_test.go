package server

import (
	"testing"
	"time"

	"github.com/snower/slock/protocol"
)

// Probe (UNCHANGED tree): UNLOCK with UNLOCK_FLAG_SUCCED_TO_LOCK_WAIT of the sole holder of a key whose
// hold is parked in the long-expiry queue. UnLock frees the hold record at once (refCount reaches 0),
// the key's LockManager is removed (KeyCount--, handed back to the free ring) and only afterwards
// addUnlockLockCommandToWaitLock() queues the re-lock request on that already removed manager; the
// following wakeUpWaitLocks() then grants the hold on the removed manager.
func TestZZProbeUnlockToLockWaitOnLongParkedHolder(t *testing.T) {
	testWithLockDB(t, func(db *LockDB) {
		type reply struct {
			commandType uint8
			result      uint8
			lcount      uint16
			lrcount     uint8
		}
		replies := make([]reply, 0)
		sp := NewMemWaiterServerProtocol(db.slock)
		_ = sp.SetResultCallback(func(_ *MemWaiterServerProtocol, command *protocol.LockCommand, result uint8, lcount uint16, lrcount uint8, _ []byte) error {
			replies = append(replies, reply{command.CommandType, result, lcount, lrcount})
			return nil
		})
		lockKey := [16]byte{'z', 'z', 'p', 'r', 'o', 'b', 'e', 'C', '1', '7', 0, 0, 0, 0, 0, 1}
		lockId := [16]byte{'h', 'o', 'l', 'd', 'e', 'r', 0, 0, 0, 0, 0, 0, 0, 0, 0, 1}
		newCommand := func(commandType uint8, flag uint8, timeout uint16, expried uint16) *protocol.LockCommand {
			return &protocol.LockCommand{
				Command: protocol.Command{Magic: protocol.MAGIC, Version: protocol.VERSION, CommandType: commandType, RequestId: protocol.GenRequestId()},
				Flag:    flag, DbId: 0, LockId: lockId, LockKey: lockKey, Timeout: timeout,
				ExpriedFlag: protocol.EXPRIED_FLAG_UNLIMITED_AOF_TIME, Expried: expried,
			}
		}
		for {
			ns := time.Now().Nanosecond()
			if db.currentTime == time.Now().Unix() && ns > 200000000 && ns < 500000000 {
				break
			}
			time.Sleep(10 * time.Millisecond)
		}
		_ = db.Lock(sp, newCommand(protocol.COMMAND_LOCK, 0, 0, 600), 1)
		lockManager := db.GetLockManager(&protocol.LockCommand{LockKey: lockKey})
		holder := lockManager.currentLock
		glockIndex := lockManager.glockIndex
		doQueues := make([]*LockQueue, 5)
		checkTime := db.checkExpriedTime
		for s := int64(0); s < EXPRIED_QUEUE_LENGTH; s++ {
			db.checkTimeExpried(checkTime+s, checkTime+s, glockIndex, doQueues)
		}
		if holder.longWaitIndex == 0 {
			t.Fatalf("precondition: holder not parked")
		}

		// release and re-queue (wait up to 5 s, then hold for 600 s again)
		_ = db.UnLock(sp, newCommand(protocol.COMMAND_UNLOCK, protocol.UNLOCK_FLAG_SUCCED_TO_LOCK_WAIT, 5, 600), 1)
		t.Logf("replies %+v", replies)
		state := db.GetState()
		t.Logf("STATE LockedCount=%d WaitCount=%d KeyCount=%d", state.LockedCount, state.WaitCount, state.KeyCount)
		m := db.GetLockManager(&protocol.LockCommand{LockKey: lockKey})
		t.Logf("key registered: %v; old manager: locked=%d refCount=%d lockKey=%x currentLock!=nil:%v", m != nil, lockManager.locked, lockManager.refCount, lockManager.lockKey, lockManager.currentLock != nil)
		if state.LockedCount != 0 && state.KeyCount == 0 {
			t.Errorf("a hold is outstanding (LockedCount=%d) but KeyCount=%d and the key cannot be found", state.LockedCount, state.KeyCount)
		}
		if state.LockedCount != 0 && m == nil {
			replies = replies[:0]
			_ = db.UnLock(sp, newCommand(protocol.COMMAND_UNLOCK, 0, 0, 0), 1)
			t.Errorf("UNLOCK of the re-granted hold answers %+v", replies)
		}
	})
}
