package server

import (
	"io"
	"net"
	"testing"
	"time"

	"github.com/jessevdk/go-flags"
	"github.com/snower/slock/protocol"
)

// Probe of the UNCHANGED code (not part of the seeded change).
//
// Connection A takes a hold on K with request R1.  Connection B (a different live client)
// releases that hold with UNLOCK flag 0x08 (succed_to_lock_wait) and Timeout 5.
// LockDB.addUnlockLockCommandToWaitLock re-queues A's ORIGINAL lock command (RequestId R1) as a
// wait lock bound to B's proxy; the wake-up at the end of UnLock grants it at once.
// Result: B receives a SUCCED reply bearing RequestId R1, which B never sent, and request R1
// has now drawn a second terminal reply (delivered to a different live client).
// The test FAILS when that happens (it does on the unchanged tree).
func TestZZProbeUnlockToWaitForeignRequestId(t *testing.T) {
	serverConfig := &ServerConfig{}
	parse := flags.NewParser(serverConfig, flags.Default)
	if _, err := parse.ParseArgs([]string{}); err != nil {
		t.Fatalf("parse config: %v", err)
	}
	logger, _ := InitLogger(serverConfig)
	slock := NewSLock(serverConfig, logger)
	slock.state = STATE_LEADER
	db := slock.GetOrNewDB(0)
	defer db.Close()

	type reply struct {
		requestId [16]byte
		result    uint8
	}
	open := func() (*BinaryServerProtocol, net.Conn, chan reply) {
		serverConn, clientConn := net.Pipe()
		sp := NewBinaryServerProtocol(slock, NewStream(serverConn))
		replies := make(chan reply, 64)
		go func() {
			buf := make([]byte, 64)
			for {
				if _, err := io.ReadFull(clientConn, buf); err != nil {
					close(replies)
					return
				}
				r := reply{result: buf[19]}
				copy(r.requestId[:], buf[3:19])
				replies <- r
			}
		}()
		return sp, clientConn, replies
	}
	spA, connA, repliesA := open()
	spB, connB, repliesB := open()
	defer func() {
		_ = connA.Close()
		_ = connB.Close()
		_ = spA.Close()
		_ = spB.Close()
	}()

	send := func(sp *BinaryServerProtocol, commandType uint8, requestId [16]byte, flag uint8, lockKey [16]byte, lockId [16]byte, timeout uint16, expried uint16) {
		command := &protocol.LockCommand{Command: protocol.Command{Magic: protocol.MAGIC, Version: protocol.VERSION, CommandType: commandType, RequestId: requestId},
			Flag: flag, DbId: 0, LockId: lockId, LockKey: lockKey, Timeout: timeout, Expried: expried}
		frame := make([]byte, 64)
		_ = command.Encode(frame)
		if err := sp.ProcessParse(frame); err != nil {
			t.Fatalf("ProcessParse: %v", err)
		}
	}
	collect := func(ch chan reply, wait time.Duration) []reply {
		out := make([]reply, 0)
		for {
			select {
			case r, ok := <-ch:
				if !ok {
					return out
				}
				out = append(out, r)
			case <-time.After(wait):
				return out
			}
		}
	}

	r1 := [16]byte{0xa1, 1, 1, 1, 1, 1, 1, 1, 1, 1, 1, 1, 1, 1, 1, 1}
	r2 := [16]byte{0xb2, 2, 2, 2, 2, 2, 2, 2, 2, 2, 2, 2, 2, 2, 2, 2}
	key := [16]byte{'z', 'z', 'p', 'r', 'o', 'b', 'e', '-', 'k', 'e', 'y'}
	lid := [16]byte{'z', 'z', 'p', 'r', 'o', 'b', 'e', '-', 'l', 'i', 'd'}

	send(spA, protocol.COMMAND_LOCK, r1, 0, key, lid, 0, 60)
	gotA := collect(repliesA, 300*time.Millisecond)
	if len(gotA) != 1 || gotA[0].requestId != r1 || gotA[0].result != protocol.RESULT_SUCCED {
		t.Fatalf("setup: A expected one SUCCED for R1, got %+v", gotA)
	}

	send(spB, protocol.COMMAND_UNLOCK, r2, protocol.UNLOCK_FLAG_SUCCED_TO_LOCK_WAIT, key, lid, 5, 60)
	gotB := collect(repliesB, 500*time.Millisecond)
	gotA = collect(repliesA, 100*time.Millisecond)

	for _, r := range gotB {
		if r.requestId != r2 {
			t.Errorf("connection B received a reply (result %d) with RequestId %x which B never sent (it is A's R1: %v)", r.result, r.requestId, r.requestId == r1)
		}
	}
	if len(gotB) != 1 {
		t.Errorf("connection B sent 1 request and received %d replies", len(gotB))
	}
	if len(gotA) != 0 {
		t.Logf("connection A additionally received %+v", gotA)
	}
}
