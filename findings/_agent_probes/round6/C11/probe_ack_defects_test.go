package server

// Probes for behaviour of the UNCHANGED tree that already contradicts the require-ack
// property. Copy into server/ and run: go test -mod=mod -vet=off -count=1 -run TestZZProbeC11 -v ./server
// Every test FAILS on the unchanged tree (each failure message describes the defect).

import (
	"os"
	"sync"
	"testing"
	"time"

	"github.com/jessevdk/go-flags"
	"github.com/snower/slock/protocol"
)

type zzpReply struct {
	requestId [16]byte
	result    uint8
}

type zzpRecorder struct {
	glock   sync.Mutex
	replies []zzpReply
}

func (self *zzpRecorder) callback(_ *MemWaiterServerProtocol, command *protocol.LockCommand, result uint8, _ uint16, _ uint8, _ []byte) error {
	self.glock.Lock()
	self.replies = append(self.replies, zzpReply{command.RequestId, result})
	self.glock.Unlock()
	return nil
}

func (self *zzpRecorder) wait(requestId [16]byte, d time.Duration) (uint8, bool) {
	deadline := time.Now().Add(d)
	for {
		self.glock.Lock()
		for _, r := range self.replies {
			if r.requestId == requestId {
				self.glock.Unlock()
				return r.result, true
			}
		}
		self.glock.Unlock()
		if !time.Now().Before(deadline) {
			return 0, false
		}
		time.Sleep(5 * time.Millisecond)
	}
}

func zzpLeader(t *testing.T) (*SLock, *LockDB, *zzpRecorder, *MemWaiterServerProtocol, func()) {
	dir, err := os.MkdirTemp("", "zzprobec11")
	if err != nil {
		t.Fatal(err)
	}
	cfg := &ServerConfig{}
	if _, err = flags.NewParser(cfg, flags.Default).ParseArgs([]string{}); err != nil {
		t.Fatal(err)
	}
	cfg.DataDir = dir
	cfg.LogLevel = "ERROR"
	logger, _ := InitLogger(cfg)
	slock := NewSLock(cfg, logger)
	if err = slock.initLeader(); err != nil {
		t.Fatal(err)
	}
	rec := &zzpRecorder{}
	proto := NewMemWaiterServerProtocol(slock)
	_ = proto.SetResultCallback(rec.callback)
	return slock, slock.GetOrNewDB(0), rec, proto, func() {
		slock.Close()
		_ = os.RemoveAll(dir)
	}
}

func zzpCmd(commandType uint8, key [16]byte, lockId [16]byte) *protocol.LockCommand {
	return &protocol.LockCommand{Command: protocol.Command{Magic: protocol.MAGIC, Version: protocol.VERSION, CommandType: commandType, RequestId: protocol.GenRequestId()},
		DbId: 0, LockId: lockId, LockKey: key}
}

// LockManager.AddLock: aofTime = uint8(float64(Expried) * db_lock_aof_parcent_time). With the default 0.3 an
// Expried of 850..853 s (and 1704..1706, ...) yields 255 == 0xff, the "never persist" sentinel, so LockDB.Lock
// skips the whole ack branch: SUCCED at once, nothing logged, nothing acknowledged (one follower is required here).
func TestZZProbeC11ParcentAofTimeSkipsAck(t *testing.T) {
	slock, db, rec, proto, closeFunc := zzpLeader(t)
	defer closeFunc()
	slock.replicationManager.GetOrNewAckDB(0).ackCount = 2 // own log + one follower, no follower ever acks

	key := [16]byte{9, 9, 1}
	cmd := zzpCmd(protocol.COMMAND_LOCK, key, protocol.GenLockId())
	cmd.Timeout, cmd.TimeoutFlag, cmd.Expried, cmd.ExpriedFlag = 120, protocol.TIMEOUT_FLAG_REQUIRE_ACKED, 852, protocol.EXPRIED_FLAG_AOF_TIME_OF_EXPRIED_PARCENT
	reqId := cmd.RequestId
	_ = db.Lock(proto, cmd, 0)
	if result, ok := rec.wait(reqId, 500*time.Millisecond); ok && result == protocol.RESULT_SUCCED {
		lock := db.GetLockManager(cmd).currentLock
		t.Errorf("require-ack lock (Expried=852, aof-time-of-expried-parcent) reported SUCCED with no follower ack: aofTime=%d isAof=%v ackCount=%d", lock.aofTime, lock.isAof, lock.ackCount)
	}
}

// ACK together with NAOF (EXPRIED_FLAG_UNLIMITED_AOF_TIME): AddLock sets ackCount=0 but Lock takes the plain branch,
// ackCount is never reset, so the owner's UNLOCK is refused with LOCK_ACK_WAITING until the lock expires.
func TestZZProbeC11AckWithUnlimitedAofTimeNeverUnlockable(t *testing.T) {
	_, db, rec, proto, closeFunc := zzpLeader(t)
	defer closeFunc()
	key, lockId := [16]byte{7, 7, 7}, protocol.GenLockId()
	cmd := zzpCmd(protocol.COMMAND_LOCK, key, lockId)
	cmd.Timeout, cmd.TimeoutFlag, cmd.Expried, cmd.ExpriedFlag = 5, protocol.TIMEOUT_FLAG_REQUIRE_ACKED, 60, protocol.EXPRIED_FLAG_UNLIMITED_AOF_TIME
	reqId := cmd.RequestId
	_ = db.Lock(proto, cmd, 0)
	if result, ok := rec.wait(reqId, time.Second); !ok || result != protocol.RESULT_SUCCED {
		t.Fatalf("lock replied=%v result=%d", ok, result)
	}
	time.Sleep(300 * time.Millisecond)
	unlockCmd := zzpCmd(protocol.COMMAND_UNLOCK, key, lockId)
	unlockReqId := unlockCmd.RequestId
	_ = db.UnLock(proto, unlockCmd, 0)
	if result, ok := rec.wait(unlockReqId, time.Second); !ok || result != protocol.RESULT_SUCCED {
		t.Errorf("UNLOCK of a lock already reported SUCCED answered replied=%v result=%d (12 = LOCK_ACK_WAITING)", ok, result)
	}
}

// Re-entrant acquisition (Rcount) and UPDATE_WHEN_LOCKED of an already acknowledged hold, both carrying require-ack:
// the re-entrant one is reported SUCCED at once (no ack awaited) and its acks later run DoAckLock on a lock whose
// ackCount is 0xff, which only decrements refCount (below the number of live references); the update is never answered.
func TestZZProbeC11ReentrantAndUpdateWithAck(t *testing.T) {
	slock, db, rec, proto, closeFunc := zzpLeader(t)
	defer closeFunc()
	key, lockId := [16]byte{6, 6, 6}, protocol.GenLockId()
	cmd := zzpCmd(protocol.COMMAND_LOCK, key, lockId)
	cmd.Timeout, cmd.TimeoutFlag, cmd.Expried, cmd.Rcount = 5, protocol.TIMEOUT_FLAG_REQUIRE_ACKED, 60, 3
	reqId := cmd.RequestId
	_ = db.Lock(proto, cmd, 0)
	if result, ok := rec.wait(reqId, time.Second); !ok || result != protocol.RESULT_SUCCED {
		t.Fatalf("lock replied=%v result=%d", ok, result)
	}
	lock := db.GetLockManager(cmd).currentLock
	refCountBefore := lock.refCount

	slock.replicationManager.GetAckDB(0).ackCount = 2 // from now on one follower ack is required, none will come
	relock := zzpCmd(protocol.COMMAND_LOCK, key, lockId)
	relock.Timeout, relock.TimeoutFlag, relock.Expried, relock.Rcount = 5, protocol.TIMEOUT_FLAG_REQUIRE_ACKED, 60, 3
	relockReqId := relock.RequestId
	_ = db.Lock(proto, relock, 0)
	if result, ok := rec.wait(relockReqId, 500*time.Millisecond); ok && result == protocol.RESULT_SUCCED {
		t.Errorf("re-entrant require-ack acquisition reported SUCCED without any follower ack")
	}
	time.Sleep(500 * time.Millisecond)
	if lock.refCount < 2 {
		t.Errorf("held lock refCount %d -> %d although it is still currentLock and in the expire queue", refCountBefore, lock.refCount)
	}

	update := zzpCmd(protocol.COMMAND_LOCK, key, lockId)
	update.Flag = protocol.LOCK_FLAG_UPDATE_WHEN_LOCKED
	update.Timeout, update.TimeoutFlag, update.Expried, update.Rcount = 5, protocol.TIMEOUT_FLAG_REQUIRE_ACKED, 90, 3
	updateReqId := update.RequestId
	_ = db.Lock(proto, update, 0)
	if _, ok := rec.wait(updateReqId, 2*time.Second); !ok {
		t.Errorf("require-ack UPDATE_WHEN_LOCKED request was never answered")
	}
}
