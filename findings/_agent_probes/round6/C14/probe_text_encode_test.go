package protocol

import "testing"

// Probe (unchanged tree): TextRequestCommand.Encode / TextResponseCommand.Encode refuse to encode
// whenever the owning parser is idle (bufIndex == bufLen), which is its normal state.
func TestZZProbeTextCommandEncodeIdleParser(t *testing.T) {
	parser := NewTextParser(make([]byte, 1024), make([]byte, 1024))
	req := &TextRequestCommand{parser, []string{"LOCK", "k"}}
	buf := make([]byte, 1024)
	if err := req.Encode(buf); err != nil {
		t.Errorf("TextRequestCommand.Encode on an idle parser: %v", err)
	}
	resp := &TextResponseCommand{parser, "", "OK", nil}
	if err := resp.Encode(buf); err != nil {
		t.Errorf("TextResponseCommand.Encode on an idle parser: %v", err)
	}
}
