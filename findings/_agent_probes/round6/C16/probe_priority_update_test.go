package server

import (
	"io"
	"os"
	"path/filepath"
	"testing"
	"time"

	"github.com/jessevdk/go-flags"
	"github.com/snower/slock/protocol"
)

// PROBE against the UNCHANGED tree (fails there): a hold taken with
// TIMEOUT_FLAG_RCOUNT_IS_PRIORITY and then extended with
// LOCK_FLAG_UPDATE_WHEN_LOCKED (same flag) loses the extension when the log is
// compacted. loadRewriteAofFiles builds the LockCommand it hands to
// LockDB.HasLock without copying AOF_FLAG_RCOUNT_IS_PRIORITY into TimeoutFlag,
// while LockManager.checkLockedCountEqual compares that bit with the live
// hold, so the update record is judged stale and dropped from rewrite.aof.
// Recovery from the compacted files then yields the pre-update deadline.

func zzProbePNewLeader(t *testing.T, dataDir string) *SLock {
	cfg := &ServerConfig{}
	parse := flags.NewParser(cfg, flags.Default)
	if _, err := parse.ParseArgs([]string{}); err != nil {
		t.Fatalf("parse config: %v", err)
	}
	cfg.DataDir = dataDir
	cfg.LogLevel = "ERROR"
	logger, _ := InitLogger(cfg)
	slock := NewSLock(cfg, logger)
	if err := slock.initLeader(); err != nil {
		t.Fatalf("initLeader: %v", err)
	}
	return slock
}

func zzProbePCopyDir(t *testing.T, from string, to string) {
	entries, err := os.ReadDir(from)
	if err != nil {
		t.Fatalf("readdir: %v", err)
	}
	for _, entry := range entries {
		if entry.IsDir() {
			continue
		}
		src, err := os.Open(filepath.Join(from, entry.Name()))
		if err != nil {
			t.Fatalf("open: %v", err)
		}
		dst, err := os.Create(filepath.Join(to, entry.Name()))
		if err != nil {
			t.Fatalf("create: %v", err)
		}
		if _, err = io.Copy(dst, src); err != nil {
			t.Fatalf("copy: %v", err)
		}
		_ = src.Close()
		_ = dst.Close()
	}
}

func zzProbePWaitRewrite(slock *SLock) {
	// let a start-up compaction goroutine (if any) begin and finish
	time.Sleep(300 * time.Millisecond)
	_ = slock.aof.WaitRewriteAofFiles()
}

// zzProbePRecover starts a fresh instance on dataDir and returns the recovered
// deadline and minute count of the hold (0, 0 when it is not held).
func zzProbePRecover(t *testing.T, dataDir string, key [16]byte, lockId [16]byte) (int64, uint16) {
	slock := zzProbePNewLeader(t, dataDir)
	defer slock.Close()
	zzProbePWaitRewrite(slock)
	db := slock.GetOrNewDB(0)
	lockManager := db.GetLockManager(&protocol.LockCommand{DbId: 0, LockKey: key})
	if lockManager == nil {
		return 0, 0
	}
	lockManager.glock.Lock()
	defer lockManager.glock.Unlock()
	if lockManager.locked == 0 || lockManager.currentLock == nil || lockManager.currentLock.command.LockId != lockId {
		return 0, 0
	}
	return lockManager.currentLock.expriedTime, lockManager.currentLock.command.Expried
}

func TestZZProbePriorityFlagUpdateLostByCompaction(t *testing.T) {
	baseDir, err := os.MkdirTemp("", "zzprobep")
	if err != nil {
		t.Fatalf("mkdtemp: %v", err)
	}
	defer func() { _ = os.RemoveAll(baseDir) }()
	liveDir := filepath.Join(baseDir, "live")
	beforeDir := filepath.Join(baseDir, "before")
	for _, dir := range []string{liveDir, beforeDir} {
		if err = os.Mkdir(dir, 0755); err != nil {
			t.Fatalf("mkdir: %v", err)
		}
	}

	key := [16]byte{'z', 'z', 'd', 'e', 'm', 'o', '1', 'k'}
	lockId := [16]byte{'z', 'z', 'd', 'e', 'm', 'o', '1', 'i'}
	expriedFlag := uint16(protocol.EXPRIED_FLAG_MINUTE_TIME | protocol.EXPRIED_FLAG_ZEOR_AOF_TIME)

	slock := zzProbePNewLeader(t, liveDir)
	closed := false
	defer func() {
		if !closed {
			slock.Close()
		}
	}()
	db := slock.GetOrNewDB(0)
	results := make([]uint8, 0)
	serverProtocol := NewMemWaiterServerProtocol(slock)
	_ = serverProtocol.SetResultCallback(func(_ *MemWaiterServerProtocol, _ *protocol.LockCommand, result uint8, _ uint16, _ uint8, _ []byte) error {
		results = append(results, result)
		return nil
	})

	// keep clear of the once-a-second refresh of db.currentTime
	waitQuietWindow := func() {
		for {
			ns := time.Now().Nanosecond()
			if ns > 250000000 && ns < 600000000 {
				return
			}
			time.Sleep(10 * time.Millisecond)
		}
	}

	waitQuietWindow()
	// the hold: 10 minutes, persisted at once
	lockCommand := &protocol.LockCommand{Command: protocol.Command{Magic: protocol.MAGIC, Version: protocol.VERSION, CommandType: protocol.COMMAND_LOCK},
		DbId: 0, LockId: lockId, LockKey: key, TimeoutFlag: protocol.TIMEOUT_FLAG_RCOUNT_IS_PRIORITY, ExpriedFlag: expriedFlag, Expried: 10}
	if err = db.Lock(serverProtocol, lockCommand, 0); err != nil {
		t.Fatalf("lock: %v", err)
	}
	// the extension: 30 minutes
	updateCommand := &protocol.LockCommand{Command: protocol.Command{Magic: protocol.MAGIC, Version: protocol.VERSION, CommandType: protocol.COMMAND_LOCK},
		Flag: protocol.LOCK_FLAG_UPDATE_WHEN_LOCKED, DbId: 0, LockId: lockId, LockKey: key, TimeoutFlag: protocol.TIMEOUT_FLAG_RCOUNT_IS_PRIORITY, ExpriedFlag: expriedFlag, Expried: 30}
	if err = db.Lock(serverProtocol, updateCommand, 0); err != nil {
		t.Fatalf("update: %v", err)
	}
	if len(results) != 2 || results[0] != protocol.RESULT_SUCCED || results[1] != protocol.RESULT_LOCKED_ERROR {
		t.Fatalf("unexpected replies %v", results)
	}
	lockManager := db.GetLockManager(lockCommand)
	if lockManager == nil || lockManager.currentLock == nil {
		t.Fatalf("hold missing")
	}
	updatedAt := lockManager.currentLock.startTime
	liveDeadline := lockManager.currentLock.expriedTime
	if liveDeadline != updatedAt+30*60+1 {
		t.Fatalf("live deadline %d, updated at %d", liveDeadline, updatedAt)
	}

	_ = slock.aof.WaitFlushAofChannel()
	slock.aof.FlushWithLocked()
	if slock.aof.aofLockCount != 2 {
		t.Fatalf("expected 2 persisted records, got %d", slock.aof.aofLockCount)
	}
	zzProbePWaitRewrite(slock)

	// the files the compaction is about to replace
	zzProbePCopyDir(t, liveDir, beforeDir)

	// rotate, then compact exactly one minute after the extension
	waitQuietWindow()
	slock.aof.aofGlock.Lock()
	err = slock.aof.RewriteAofFile(false)
	slock.aof.aofGlock.Unlock()
	if err != nil {
		t.Fatalf("rotate: %v", err)
	}
	db.currentTime = updatedAt + 5
	slock.aof.rewriteAofFiles()
	if db.currentTime != updatedAt+5 {
		t.Fatalf("engine clock moved during the compaction, timing window missed")
	}
	db.currentTime = time.Now().Unix()
	if _, serr := os.Stat(filepath.Join(liveDir, "rewrite.aof")); serr != nil {
		t.Fatalf("compaction left no rewrite.aof: %v", serr)
	}
	if _, serr := os.Stat(filepath.Join(liveDir, "append.aof.1")); serr == nil {
		t.Fatalf("compaction did not consume append.aof.1")
	}
	slock.Close()
	closed = true

	beforeDeadline, beforeMinutes := zzProbePRecover(t, beforeDir, key, lockId)
	afterDeadline, afterMinutes := zzProbePRecover(t, liveDir, key, lockId)
	if beforeDeadline == 0 {
		t.Fatalf("hold not recovered from the uncompacted files")
	}
	if beforeDeadline < liveDeadline-61 || beforeDeadline > liveDeadline+61 {
		t.Fatalf("uncompacted files recover deadline %d, live deadline was %d", beforeDeadline, liveDeadline)
	}
	if afterDeadline == 0 {
		t.Fatalf("hold not recovered from the compacted files")
	}
	diff := afterDeadline - beforeDeadline
	if diff < 0 {
		diff = -diff
	}
	if diff > 61 {
		t.Fatalf("compaction changed what a restart recovers: deadline %d (%d min) from the replaced files, %d (%d min) from the compacted files",
			beforeDeadline, beforeMinutes, afterDeadline, afterMinutes)
	}
}
