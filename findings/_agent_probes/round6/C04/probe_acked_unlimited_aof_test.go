package server

import (
	"testing"

	"github.com/snower/slock/protocol"
)

// Probe (unchanged tree): a REQUIRE_ACKED lock whose AOF time is "unlimited" (never persisted, so no ack
// round is started) is granted at once, but AddLock has already set ackCount = 0 and nothing resets it:
// the owner can never unlock it (RESULT_LOCK_ACK_WAITING) and waiters stay blocked until it expires.
func TestZZProbeAckedUnlimitedAofTimeLockCannotBeUnlocked(t *testing.T) {
	testWithLockDB(t, func(db *LockDB) {
		results := make(map[[16]byte][]uint8)
		sp := NewMemWaiterServerProtocol(db.slock)
		_ = sp.SetResultCallback(func(_ *MemWaiterServerProtocol, command *protocol.LockCommand, result uint8, _ uint16, _ uint8, _ []byte) error {
			results[command.RequestId] = append(results[command.RequestId], result)
			return nil
		})
		key, lid := [16]byte{'K', 9}, [16]byte{'L', 9}
		lockCommand := &protocol.LockCommand{Command: protocol.Command{Magic: protocol.MAGIC, Version: protocol.VERSION, CommandType: protocol.COMMAND_LOCK, RequestId: [16]byte{1}},
			LockId: lid, LockKey: key, Expried: 120, ExpriedFlag: protocol.EXPRIED_FLAG_UNLIMITED_AOF_TIME, TimeoutFlag: protocol.TIMEOUT_FLAG_REQUIRE_ACKED}
		_ = db.Lock(sp, lockCommand, 0)
		if r := results[[16]byte{1}]; len(r) != 1 || r[0] != protocol.RESULT_SUCCED {
			t.Fatalf("lock results %v", r)
		}
		unlockCommand := &protocol.LockCommand{Command: protocol.Command{Magic: protocol.MAGIC, Version: protocol.VERSION, CommandType: protocol.COMMAND_UNLOCK, RequestId: [16]byte{2}},
			LockId: lid, LockKey: key}
		_ = db.UnLock(sp, unlockCommand, 0)
		if r := results[[16]byte{2}]; len(r) != 1 || r[0] != protocol.RESULT_SUCCED {
			t.Fatalf("unlock of a granted lock refused, results %v (RESULT_LOCK_ACK_WAITING=%d)", r, protocol.RESULT_LOCK_ACK_WAITING)
		}
	})
}
