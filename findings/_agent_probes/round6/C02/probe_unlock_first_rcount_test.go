package server

import (
	"testing"

	"github.com/snower/slock/protocol"
)

// Probe (unchanged tree): an unlock that carries the unlock-first flag and Rcount=0,
// whose LockId holds nothing, is redirected to the oldest hold. UnLock then overwrites
// the request's Rcount with the hold's own Rcount, so for a re-entrant hold
// (Rcount 3, depth 3) only ONE depth is removed although the request said Rcount=0
// ("remove them all").
func TestZZProbeUnlockFirstRcountZeroRemovesOneDepth(t *testing.T) {
	testWithLockDB(t, func(db *LockDB) {
		proto := NewMemWaiterServerProtocol(db.slock)
		defer proto.Close()
		type reply struct {
			result  uint8
			lcount  uint16
			lrcount uint8
		}
		replies := make(map[[16]byte]reply)
		_ = proto.SetResultCallback(func(_ *MemWaiterServerProtocol, command *protocol.LockCommand, result uint8, lcount uint16, lrcount uint8, _ []byte) error {
			replies[command.RequestId] = reply{result, lcount, lrcount}
			return nil
		})
		key := [16]byte{'p', 'r', 'o', 'b', 'e', 'k'}
		holder := [16]byte{'h', 'o', 'l', 'd', 'e', 'r'}
		other := [16]byte{'o', 't', 'h', 'e', 'r'}
		for i := 1; i <= 3; i++ {
			c := &protocol.LockCommand{Command: protocol.Command{CommandType: protocol.COMMAND_LOCK, RequestId: protocol.GenRequestId()},
				LockKey: key, LockId: holder, Expried: 300, ExpriedFlag: protocol.EXPRIED_FLAG_UNLIMITED_AOF_TIME, Rcount: 3}
			_ = db.Lock(proto, c, 0)
			if r := replies[c.RequestId]; r.result != protocol.RESULT_SUCCED || int(r.lrcount) != i {
				t.Fatalf("lock %d: %+v", i, r)
			}
		}
		u := &protocol.LockCommand{Command: protocol.Command{CommandType: protocol.COMMAND_UNLOCK, RequestId: protocol.GenRequestId()},
			Flag: protocol.UNLOCK_FLAG_UNLOCK_FIRST_LOCK_WHEN_UNLOCKED, LockKey: key, LockId: other, Rcount: 0}
		_ = db.UnLock(proto, u, 0)
		r := replies[u.RequestId]
		t.Logf("unlock-first with Rcount=0 on a depth-3 hold: result=%d lcount=%d lrcount=%d", r.result, r.lcount, r.lrcount)
		if r.result != protocol.RESULT_SUCCED {
			t.Fatalf("unexpected result %+v", r)
		}
		if r.lrcount != 0 {
			t.Errorf("Rcount=0 unlock (unlock-first) removed only one depth: hold still has depth %d", r.lrcount)
		}
	})
}
