package server

import (
	"net"
	"testing"

	"github.com/snower/slock/protocol"
)

// Probes of the UNCHANGED tree (package server). Copy into server/ to run:
//   go test -mod=mod -vet=off -count=1 -run TestZZProbeC10 ./server

type zzProbeResult struct {
	requestId [16]byte
	result    uint8
}

func zzProbeProtocol(db *LockDB, results *[]zzProbeResult) *MemWaiterServerProtocol {
	serverProtocol := NewMemWaiterServerProtocol(db.slock)
	_ = serverProtocol.SetResultCallback(func(_ *MemWaiterServerProtocol, command *protocol.LockCommand, result uint8, _ uint16, _ uint8, _ []byte) error {
		*results = append(*results, zzProbeResult{command.RequestId, result})
		return nil
	})
	return serverProtocol
}

func zzProbeCommand(commandType uint8, flag uint8, lockId byte, key string, timeout uint16, expried uint16) *protocol.LockCommand {
	command := &protocol.LockCommand{Command: protocol.Command{Magic: protocol.MAGIC, Version: protocol.VERSION, CommandType: commandType, RequestId: protocol.GenRequestId()},
		Flag: flag, DbId: 0, LockId: [16]byte{lockId}, Timeout: timeout, Expried: expried}
	copy(command.LockKey[:], key)
	return command
}

// Probe 1: a node that has been demoted still GRANTS a queued waiter on its own.
// wakeUpWaitLocks/wakeUpWaitLock have no role check, so when a hold ends on the demoted node
// (here: the leader's UNLOCK record is applied from the stream) the waiter that was queued while
// the node was leader is granted locally and its client receives RESULT_SUCCED from a non-leader.
func TestZZProbeC10DemotedNodeGrantsQueuedWaiter(t *testing.T) {
	testWithLockDB(t, func(db *LockDB) {
		results := make([]zzProbeResult, 0)
		serverProtocol := zzProbeProtocol(db, &results)

		holder := zzProbeCommand(protocol.COMMAND_LOCK, 0, 1, "zzprobe-waiter", 0, 60)
		_ = db.Lock(serverProtocol, holder, 0)
		waiter := zzProbeCommand(protocol.COMMAND_LOCK, 0, 2, "zzprobe-waiter", 50, 60)
		_ = db.Lock(serverProtocol, waiter, 0)
		if len(results) != 1 || results[0].result != protocol.RESULT_SUCCED {
			t.Fatalf("setup: holder not granted / waiter not queued %v", results)
		}

		// demotion (what SLock.updateState does to every db)
		db.slock.state = STATE_FOLLOWER
		db.status = STATE_FOLLOWER

		// the new leader's stream releases the holder
		unlock := zzProbeCommand(protocol.COMMAND_UNLOCK, protocol.UNLOCK_FLAG_FROM_AOF, 1, "zzprobe-waiter", 0, 0)
		_ = db.UnLock(serverProtocol, unlock, 1)

		for _, r := range results {
			if r.requestId == waiter.RequestId && r.result == protocol.RESULT_SUCCED {
				t.Errorf("a node in state %d granted the queued waiter on its own (RESULT_SUCCED sent to the client)", db.status)
			}
		}
		if lockManager := db.GetLockManager(waiter); lockManager != nil && lockManager.locked != 0 {
			t.Errorf("a node in state %d now holds a lock the leader never granted: locked=%d", db.status, lockManager.locked)
		}
	})
}

// Probe 2: the internal LOCK/UNLOCK flag 0x04 (FROM_AOF) is taken from the client's bytes. The role
// guards in LockDB.Lock/UnLock let every command through that carries it, so a client command that
// is executed locally on a follower (e.g. a WILL_UNLOCK stored on the follower and run by
// BinaryServerProtocol.Close when the leader cannot be reached) releases a replicated hold.
func TestZZProbeC10ClientForgedFromAofFlagReleasesOnFollower(t *testing.T) {
	testWithLockDB(t, func(db *LockDB) {
		results := make([]zzProbeResult, 0)
		streamProtocol := zzProbeProtocol(db, &results)
		db.slock.dbs[0] = db
		db.slock.state = STATE_FOLLOWER
		db.status = STATE_FOLLOWER

		// the leader's stream installs a hold
		hold := zzProbeCommand(protocol.COMMAND_LOCK, protocol.LOCK_FLAG_FROM_AOF, 1, "zzprobe-forged", 0, 60)
		_ = db.Lock(streamProtocol, hold, 1)
		lockManager := db.GetLockManager(hold)
		if lockManager == nil || lockManager.locked != 1 {
			t.Fatalf("setup: replicated hold not installed")
		}

		// a client connection on the follower (binary protocol behind the transparency wrapper, as
		// Server.checkProtocol builds it on a non-leader): WILL_UNLOCK with flag 0x04, then the
		// connection closes while no leader connection is available -> the will command is run locally
		serverConn, clientConn := net.Pipe()
		defer clientConn.Close()
		stream := NewStream(serverConn)
		clientProtocol := NewTransparencyBinaryServerProtocol(db.slock, stream, NewBinaryServerProtocol(db.slock, stream))
		will := zzProbeCommand(protocol.COMMAND_WILL_UNLOCK, protocol.UNLOCK_FLAG_FROM_AOF, 1, "zzprobe-forged", 0, 0)
		buf := make([]byte, 64)
		if err := will.Encode(buf); err != nil {
			t.Fatalf("encode %v", err)
		}
		if err := clientProtocol.ProcessParse(buf); err != nil {
			t.Fatalf("will command not accepted %v", err)
		}
		_ = clientProtocol.Close()

		if lockManager.locked != 1 {
			t.Errorf("a follower released a replicated hold in answer to a client (locked=%d)", lockManager.locked)
		}
	})
}
