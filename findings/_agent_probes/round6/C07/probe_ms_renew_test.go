package server

import (
	"testing"
	"time"

	"github.com/jessevdk/go-flags"
	"github.com/snower/slock/protocol"
)

// Probe (UNCHANGED tree): a millisecond-granularity hold that was persisted is
// restored after a restart with its FULL original lifetime counted from the
// restart (Aof.GetLockCommandExpriedTime returns aofLock.ExpriedTime unchanged
// for EXPRIED_FLAG_MILLISECOND_TIME), i.e. the outage renews the hold.
func TestZZProbeMillisecondHoldRenewedByRestart(t *testing.T) {
	start := func(dir string) *SLock {
		cfg := &ServerConfig{}
		if _, err := flags.NewParser(cfg, flags.Default).ParseArgs([]string{}); err != nil {
			t.Fatal(err)
		}
		cfg.DataDir = dir
		cfg.LogLevel = "ERROR"
		logger, _ := InitLogger(cfg)
		s := NewSLock(cfg, logger)
		if err := s.initLeader(); err != nil {
			t.Fatal(err)
		}
		return s
	}
	stop := func(s *SLock) {
		done := make(chan struct{})
		go func() { s.Close(); close(done) }()
		select {
		case <-done:
		case <-time.After(10 * time.Second):
		}
	}
	dir := t.TempDir()
	leader := start(dir)
	db := leader.GetOrNewDB(0)
	sp := NewMemWaiterServerProtocol(leader)
	_ = sp.SetResultCallback(func(_ *MemWaiterServerProtocol, _ *protocol.LockCommand, _ uint8, _ uint16, _ uint8, _ []byte) error { return nil })
	command := &protocol.LockCommand{Command: protocol.Command{Magic: protocol.MAGIC, Version: protocol.VERSION, CommandType: protocol.COMMAND_LOCK}}
	command.LockId = [16]byte{1, 2, 3}
	command.LockKey = [16]byte{9, 9, 9}
	command.Expried = 12000
	command.ExpriedFlag = protocol.EXPRIED_FLAG_MILLISECOND_TIME | protocol.EXPRIED_FLAG_ZEOR_AOF_TIME
	_ = db.Lock(sp, command, 0)
	lm := db.GetLockManager(command)
	if lm == nil || lm.currentLock == nil {
		t.Fatal("hold not taken")
	}
	deadline := lm.currentLock.startTime + 12 + 1
	time.Sleep(6 * time.Second)
	leader.aof.FlushWithLocked()
	stop(leader)

	restarted := start(dir)
	defer stop(restarted)
	rlm := restarted.GetOrNewDB(0).GetLockManager(command)
	if rlm == nil || rlm.currentLock == nil {
		t.Fatal("hold not restored")
	}
	if diff := rlm.currentLock.expriedTime - deadline; diff > 2 || diff < -2 {
		t.Fatalf("restored deadline differs from the original one by %ds (original %d, restored %d)", diff, deadline, rlm.currentLock.expriedTime)
	}
}
