package server

import (
	"os"
	"testing"

	"github.com/jessevdk/go-flags"
)

// Probe (unchanged tree): a member that granted a commit and restarts before the winner's
// announcement reloads meta.pb without that commit: commitId/proposalId fall back and the
// "already committed to a host" guard (proposalHost) is gone, so the same or a lower-numbered
// second candidacy can collect this member's proposal and commit again.
func TestZZProbeCommitGrantNotDurable(t *testing.T) {
	dataDir, err := os.MkdirTemp("", "zzprobe")
	if err != nil {
		t.Fatal(err)
	}
	defer os.RemoveAll(dataDir)

	serverConfig := &ServerConfig{}
	parse := flags.NewParser(serverConfig, flags.Default)
	if _, err = parse.ParseArgs([]string{}); err != nil {
		t.Fatal(err)
	}
	serverConfig.DataDir = dataDir
	logger, _ := InitLogger(serverConfig)
	slock := NewSLock(serverConfig, logger)
	manager := NewArbiterManager(slock, "zzprobe")
	slock.arbiterManager = manager

	own := NewArbiterMember(manager, "127.0.0.1:15002", 1, 0)
	own.isSelf, own.role, own.status = true, ARBITER_ROLE_FOLLOWER, ARBITER_MEMBER_STATUS_ONLINE
	other := NewArbiterMember(manager, "127.0.0.1:15003", 1, 0)
	other.role, other.status = ARBITER_ROLE_FOLLOWER, ARBITER_MEMBER_STATUS_ONLINE
	third := NewArbiterMember(manager, "127.0.0.1:15001", 1, 0)
	third.role, third.status = ARBITER_ROLE_LEADER, ARBITER_MEMBER_STATUS_OFFLINE
	manager.members = []*ArbiterMember{third, own, other}
	manager.ownMember = own
	manager.gid = "g"
	manager.voter.commitId, manager.voter.proposalId = 4, 4
	if err = manager.store.Save(manager); err != nil {
		t.Fatal(err)
	}

	if _, err = own.DoSelfProposal(5, other.host, [16]byte{}); err != nil {
		t.Fatalf("proposal 5 should be accepted: %v", err)
	}
	if _, err = own.DoSelfCommit(5, other.host); err != nil {
		t.Fatalf("commit 5 should be granted: %v", err)
	}
	if manager.voter.commitId != 5 || manager.voter.proposalHost != other.host {
		t.Fatalf("unexpected voter state %d %s", manager.voter.commitId, manager.voter.proposalHost)
	}

	// crash + restart from the saved metadata
	slock2 := NewSLock(serverConfig, logger)
	manager2 := NewArbiterManager(slock2, "zzprobe")
	slock2.arbiterManager = manager2
	if err = manager2.Load(); err != nil {
		t.Fatalf("reload: %v", err)
	}
	if manager2.voter.commitId < 5 || manager2.voter.proposalId < 5 {
		t.Errorf("after restart commitId %d proposalId %d proposalHost %q: the commit granted for number 5 is forgotten",
			manager2.voter.commitId, manager2.voter.proposalId, manager2.voter.proposalHost)
	}
	for _, member := range manager2.members {
		member.status = ARBITER_MEMBER_STATUS_ONLINE
		member.role = ARBITER_ROLE_FOLLOWER
	}
	if _, err = manager2.ownMember.DoSelfProposal(5, manager2.ownMember.host, manager2.GetCurrentAofID()); err == nil {
		if _, err = manager2.ownMember.DoSelfCommit(5, manager2.ownMember.host); err == nil {
			t.Errorf("restarted member granted commit number 5 a second time, now for host %s (first grant was for %s)",
				manager2.voter.proposalHost, other.host)
		} else {
			t.Logf("second commit refused: %v", err)
		}
	} else {
		t.Logf("second proposal refused: %v", err)
	}
}
