package server

import (
	"sync"
	"testing"
	"time"

	"github.com/snower/slock/protocol"
)

// Probe (unchanged tree): a re-entrant (RLock style, Rcount=0xff) lock with a millisecond lease is
// re-locked by its holder at t=500ms with a fresh 800 ms lease. The renewed lease should run to
// about t=1300ms, but the only millisecond timer entry is the one armed by the first Lock, so the
// lock is expired at t=800ms and another client can take the key at t=1000ms.
func TestZZProbeMillisecondLeaseNotRenewedByReentrantLock(t *testing.T) {
	testWithLockDB(t, func(db *LockDB) {
		type reply struct {
			lockId  [16]byte
			result  uint8
			lrcount uint8
		}
		glock := &sync.Mutex{}
		replies := make([]reply, 0)
		serverProtocol := NewMemWaiterServerProtocol(db.slock)
		defer serverProtocol.Close()
		_ = serverProtocol.SetResultCallback(func(_ *MemWaiterServerProtocol, command *protocol.LockCommand, result uint8, _ uint16, lrcount uint8, _ []byte) error {
			glock.Lock()
			replies = append(replies, reply{command.LockId, result, lrcount})
			glock.Unlock()
			return nil
		})
		last := func() reply {
			glock.Lock()
			defer glock.Unlock()
			return replies[len(replies)-1]
		}
		lockKey := [16]byte{'z', 'z', 'p', 'r', 'o', 'b', 'e', 'm', 's', 'r', 'l', 'o', 'c', 'k', 0, 1}
		newCommand := func(lockId byte, requestId byte, rcount uint8) *protocol.LockCommand {
			command := &protocol.LockCommand{Command: protocol.Command{Magic: protocol.MAGIC, Version: protocol.VERSION, CommandType: protocol.COMMAND_LOCK}}
			command.RequestId[0] = requestId
			command.LockId[0] = lockId
			command.LockKey = lockKey
			command.Expried = 800
			command.ExpriedFlag = protocol.EXPRIED_FLAG_MILLISECOND_TIME
			command.Rcount = rcount
			return command
		}
		_ = db.Lock(serverProtocol, newCommand(0xa1, 1, 0xff), 0)
		if r := last(); r.result != protocol.RESULT_SUCCED {
			t.Fatalf("first lock %v", r)
		}
		time.Sleep(500 * time.Millisecond)
		_ = db.Lock(serverProtocol, newCommand(0xa1, 2, 0xff), 0)
		if r := last(); r.result != protocol.RESULT_SUCCED || r.lrcount != 2 {
			t.Fatalf("re-entrant lock %v", r)
		}
		time.Sleep(500 * time.Millisecond)
		_ = db.Lock(serverProtocol, newCommand(0xb1, 3, 0), 0)
		if r := last(); r.lockId[0] != 0xb1 || r.result != protocol.RESULT_TIMEOUT {
			glock.Lock()
			defer glock.Unlock()
			t.Fatalf("at t=1000ms (renewed 800 ms lease taken at t=500ms) another client got result %d; replies %v", r.result, replies)
		}
	})
}
