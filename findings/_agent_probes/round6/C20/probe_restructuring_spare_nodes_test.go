package server

import (
	"testing"
)

// Probe A: LockQueue.Restructuring when spare nodes are allocated above the tail node
// (left there by an earlier Rellac). Restructuring frees the old tail node and decrements
// nodeIndex, which then points at a freed slot, so queueSize becomes 0 and the next node
// allocated has length 0: a later Push panics.
func TestZZProbeLockQueueRestructuringSpareNodes(t *testing.T) {
	defer func() {
		if r := recover(); r != nil {
			t.Fatalf("panic: %v", r)
		}
	}()
	q := NewLockQueue(2, 6, 4)
	for i := 0; i < 29; i++ { // 4+8+16+1 -> nodes 0..3 allocated
		_ = q.Push(&Lock{})
	}
	for q.Pop() != nil {
	}
	_ = q.Rellac() // first Rellac keeps all nodes, cursors back to node 0
	model := make([]*Lock, 0)
	for i := 0; i < 13; i++ { // tail on node 2, node 3 is a spare
		l := &Lock{}
		_ = q.Push(l)
		model = append(model, l)
	}
	// punch holes: keep only the first two
	for i := 2; i < 13; i++ {
		if i < 4 {
			q.queues[0][i] = nil
		} else if i < 12 {
			q.queues[1][i-4] = nil
		} else {
			q.queues[2][i-12] = nil
		}
	}
	model = model[:2]
	_ = q.Restructuring()
	t.Logf("after Restructuring: nodeIndex=%d queueSize=%d tailNodeIndex=%d sizes=%v", q.nodeIndex, q.queueSize, q.tailNodeIndex, q.nodeQueueSizes)
	if int(q.Len()) != len(model) {
		t.Fatalf("Len %d want %d", q.Len(), len(model))
	}
	for i := 0; i < 40; i++ {
		l := &Lock{}
		_ = q.Push(l)
		model = append(model, l)
	}
	if int(q.Len()) != len(model) {
		t.Fatalf("Len %d want %d", q.Len(), len(model))
	}
	for i := range model {
		if q.Pop() != model[i] {
			t.Fatalf("pop %d differs", i)
		}
	}
}
