package server

import (
	"fmt"
	"io/ioutil"
	"os"
	"path/filepath"
	"testing"
	"time"

	"github.com/jessevdk/go-flags"
	"github.com/snower/slock/protocol"
)

func zzStart(t *testing.T, dir string, rewriteSize uint) *SLock {
	cfg := &ServerConfig{}
	_, err := flags.NewParser(cfg, flags.Default).ParseArgs([]string{})
	if err != nil {
		t.Fatal(err)
	}
	cfg.DataDir = dir
	cfg.LogLevel = "ERROR"
	if rewriteSize > 0 {
		cfg.AofFileRewriteSize = rewriteSize
	}
	logger, _ := InitLogger(cfg)
	s := NewSLock(cfg, logger)
	if err = s.initLeader(); err != nil {
		t.Fatalf("initLeader: %v", err)
	}
	return s
}

func zzKey(i int) [16]byte {
	k := [16]byte{}
	copy(k[:], fmt.Sprintf("zzkey-%08d", i))
	return k
}

func zzLock(t *testing.T, s *SLock, i int, value string) {
	db := s.GetOrNewDB(0)
	sp := NewMemWaiterServerProtocol(s)
	res := make(chan uint8, 4)
	_ = sp.SetResultCallback(func(_ *MemWaiterServerProtocol, c *protocol.LockCommand, result uint8, _ uint16, _ uint8, _ []byte) error {
		res <- result
		return nil
	})
	c := sp.GetLockCommand()
	c.CommandType = protocol.COMMAND_LOCK
	c.DbId = 0
	c.LockKey = zzKey(i)
	c.LockId = zzKey(i + 1000000)
	c.RequestId = zzKey(i + 2000000)
	c.Timeout = 0
	c.Expried = 600
	c.ExpriedFlag = protocol.EXPRIED_FLAG_ZEOR_AOF_TIME
	c.Count = 0
	if value != "" {
		c.Data = protocol.NewLockCommandDataSetString(value)
		c.Flag |= protocol.LOCK_FLAG_CONTAINS_DATA
	}
	if err := db.Lock(sp, c, 0); err != nil {
		t.Fatalf("lock: %v", err)
	}
	select {
	case r := <-res:
		if r != 0 {
			t.Fatalf("lock result %d", r)
		}
	case <-time.After(5 * time.Second):
		t.Fatalf("lock no result")
	}
}

func zzFlush(s *SLock) {
	time.Sleep(50 * time.Millisecond)
	_ = s.aof.WaitFlushAofChannel()
	s.aof.FlushWithLocked()
	_ = s.aof.WaitRewriteAofFiles()
}

// PROBE (unchanged tree FAILS): after a stop that cuts append.aof.1 inside its last record, the next
// start recovers the prefix, but the append file is reopened with O_APPEND without dropping the
// partial tail: records persisted after that start are written off the 64-byte grid (and their values
// behind the orphaned value in the .dat file), so the following start fails with "Lock Len error".
// state: key index -> value ("" if no value / "-" style), only locked keys
func zzState(s *SLock, n int) map[int]string {
	out := map[int]string{}
	db := s.GetDB(0)
	if db == nil {
		return out
	}
	for i := 0; i < n; i++ {
		c := &protocol.LockCommand{}
		c.LockKey = zzKey(i)
		m := db.GetLockManager(c)
		if m == nil || m.locked == 0 {
			continue
		}
		v := ""
		if m.currentData != nil {
			v = string(m.currentData.data[6:])
		}
		out[i] = v
	}
	return out
}

func zzLs(t *testing.T, dir string) {
	fis, _ := ioutil.ReadDir(dir)
	for _, fi := range fis {
		t.Logf("  %s %d", fi.Name(), fi.Size())
	}
}

func TestZZProbeOffGrid(t *testing.T) {
	dir, _ := ioutil.TempDir("", "zzprobe")
	defer os.RemoveAll(dir)
	s := zzStart(t, dir, 0)
	for i := 0; i < 4; i++ {
		zzLock(t, s, i, fmt.Sprintf("v%d", i))
	}
	zzFlush(s)
	t.Logf("state1 %v", zzState(s, 10))
	s.Close()
	zzLs(t, dir)
	// cut mid-record
	f := filepath.Join(dir, "append.aof.1")
	fi, _ := os.Stat(f)
	_ = os.Truncate(f, fi.Size()-30)
	s = zzStart(t, dir, 0)
	time.Sleep(200 * time.Millisecond)
	zzFlush(s)
	t.Logf("state2 %v", zzState(s, 10))
	zzLock(t, s, 5, "v5")
	zzLock(t, s, 6, "v6")
	zzFlush(s)
	t.Logf("state2b %v", zzState(s, 10))
	s.Close()
	zzLs(t, dir)
	s = zzStart(t, dir, 0)
	time.Sleep(200 * time.Millisecond)
	zzFlush(s)
	t.Logf("state3 %v", zzState(s, 10))
	s.Close()
}
