package server

import (
	"testing"

	"github.com/snower/slock/protocol"
)

// Probes against the UNCHANGED tree (copy into server/ to run). Each one states what a sequential
// interpreter of the value register would give; a failure means the unchanged code disagrees.

type zzProbeReply struct {
	requestId [16]byte
	result    uint8
	data      []byte
}

func zzProbeProtocol(db *LockDB, replies *[]zzProbeReply) *MemWaiterServerProtocol {
	serverProtocol := NewMemWaiterServerProtocol(db.slock)
	_ = serverProtocol.SetResultCallback(func(_ *MemWaiterServerProtocol, command *protocol.LockCommand, result uint8, _ uint16, _ uint8, data []byte) error {
		var copied []byte = nil
		if data != nil {
			copied = append([]byte{}, data...)
		}
		*replies = append(*replies, zzProbeReply{command.RequestId, result, copied})
		return nil
	})
	return serverProtocol
}

// PIPELINE[SET "a", APPEND "b"] on a key without a value: sequentially "ab".
// ProcessLockData resets currentData to the value from before the PIPELINE ahead of every
// non-EXECUTE step (the guard compares command.CommandType, a LOCK/UNLOCK code, with
// LOCK_DATA_COMMAND_TYPE_PIPELINE, so it is always true), hence only the last step counts.
func TestZZProbePipelineStepsSeeEachOther(t *testing.T) {
	testWithLockDB(t, func(db *LockDB) {
		replies := make([]zzProbeReply, 0)
		serverProtocol := zzProbeProtocol(db, &replies)
		defer serverProtocol.Close()

		lockKey := protocol.GenLockId()
		command := protocol.NewLockCommand(db.dbId, lockKey, protocol.GenLockId(), 0, 30, 0)
		command.Flag |= protocol.LOCK_FLAG_CONTAINS_DATA
		command.ExpriedFlag |= protocol.EXPRIED_FLAG_UNLIMITED_AOF_TIME
		command.Data = protocol.NewLockCommandDataPipelineData([]*protocol.LockCommandData{
			protocol.NewLockCommandDataSetString("a"),
			protocol.NewLockCommandDataAppendString("b"),
		})
		if err := db.Lock(serverProtocol, command, 0); err != nil {
			t.Fatalf("lock error %v", err)
		}
		if len(replies) != 1 || replies[0].result != protocol.RESULT_SUCCED {
			t.Fatalf("lock should succeed")
		}
		lockManager := db.GetLockManager(command)
		value := lockManager.GetLockData()
		if value == nil || string(value[6:]) != "ab" {
			t.Errorf("PIPELINE[SET a, APPEND b] should leave \"ab\", got %q", string(value[6:]))
		}
	})
}

// Two shared holders (count 1 = two holders) increment the same key. A (ack pending) adds 2,
// B adds 3, then A's ack is refused. Sequentially (A never happened) the value is 3.
// The INCR undo subtracts from the snapshot taken right after A's own step (2-2=0), so B's
// increment is lost.
func TestZZProbeRefusedIncrKeepsOtherHoldersIncrement(t *testing.T) {
	testWithLockDB(t, func(db *LockDB) {
		replies := make([]zzProbeReply, 0)
		serverProtocol := zzProbeProtocol(db, &replies)
		defer serverProtocol.Close()

		lockKey := protocol.GenLockId()
		lockManagerCommand := protocol.NewLockCommand(db.dbId, lockKey, protocol.GenLockId(), 0, 30, 1)
		lockManager := db.GetOrNewLockManager(lockManagerCommand)

		// A: granted with the value step applied in undo mode, as Lock() does for an ack-requiring request
		aCommand := protocol.NewLockCommand(db.dbId, lockKey, protocol.GenLockId(), 5, 30, 1)
		aCommand.TimeoutFlag |= protocol.TIMEOUT_FLAG_REQUIRE_ACKED
		aCommand.Flag |= protocol.LOCK_FLAG_CONTAINS_DATA
		aCommand.Data = protocol.NewLockCommandDataIncrData(2)
		lockManager.glock.Lock()
		aLock := lockManager.GetOrNewLock(serverProtocol, aCommand)
		lockManager.AddLock(aLock)
		lockManager.locked++
		lockManager.ProcessLockData(aCommand, aLock, true)
		lockManager.glock.Unlock()

		// B: ordinary shared holder, INCR 3
		bCommand := protocol.NewLockCommand(db.dbId, lockKey, protocol.GenLockId(), 0, 30, 1)
		bCommand.Flag |= protocol.LOCK_FLAG_CONTAINS_DATA
		bCommand.ExpriedFlag |= protocol.EXPRIED_FLAG_UNLIMITED_AOF_TIME
		bCommand.Data = protocol.NewLockCommandDataIncrData(3)
		if err := db.Lock(serverProtocol, bCommand, 0); err != nil {
			t.Fatalf("lock B error %v", err)
		}
		if len(replies) != 1 || replies[0].result != protocol.RESULT_SUCCED {
			t.Fatalf("lock B should succeed, replies %v", replies)
		}
		if lockManager.currentData.GetIncrValue() != 5 {
			t.Fatalf("value after both increments should be 5, got %d", lockManager.currentData.GetIncrValue())
		}

		// A's ack is refused: the undo DoAckLock(lock, false) performs
		lockManager.glock.Lock()
		lockManager.ProcessRecoverLockData(aLock)
		lockManager.glock.Unlock()
		if lockManager.currentData.GetIncrValue() != 3 {
			t.Errorf("after refusing A (+2) the value should be 3 (B's +3), got %d", lockManager.currentData.GetIncrValue())
		}
	})
}
