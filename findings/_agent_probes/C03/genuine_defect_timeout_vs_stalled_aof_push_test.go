package server

import (
	"fmt"
	"os"
	"sync"
	"testing"
	"time"

	"github.com/jessevdk/go-flags"
	"github.com/snower/slock/protocol"
)

// C03 demonstration 2.
//
// A LOCK with the require-ack timeout flag is granted only once the AOF has
// acknowledged it; the ack handler (LockDB.DoAckLock) then sends the one terminal
// SUCCED reply. Later the timeout sweeper reaches the wait deadline the request
// carried. The request was answered already, so nothing more may be sent under
// its RequestId by the timeout path.

type zzx9Reply struct {
	requestId   [16]byte
	commandType uint8
	result      uint8
}

type zzx9Recorder struct {
	glock   sync.Mutex
	replies []zzx9Reply
}

func (self *zzx9Recorder) callback(_ *MemWaiterServerProtocol, command *protocol.LockCommand, result uint8, _ uint16, _ uint8, _ []byte) error {
	self.glock.Lock()
	self.replies = append(self.replies, zzx9Reply{command.RequestId, command.CommandType, result})
	self.glock.Unlock()
	return nil
}

func (self *zzx9Recorder) snapshot() []zzx9Reply {
	self.glock.Lock()
	defer self.glock.Unlock()
	return append([]zzx9Reply{}, self.replies...)
}

func zzx9Id(tag byte, n byte) [16]byte {
	return [16]byte{'z', 'z', 'd', '2', tag, n, 0, 0, 0, 0, 0, 0, 0, 0, 0, 1}
}

// run the per-second timeout sweeper over every wheel slot with a clock far in the future
func zzx9SweepTimeOut(db *LockDB, glockIndex uint16) {
	farFuture := db.currentTime + 1000000
	queues := make([]*LockQueue, 5)
	for pass := 0; pass < 3; pass++ {
		base := db.checkTimeoutTime
		for checkTime := base; checkTime < base+TIMEOUT_QUEUE_LENGTH; checkTime++ {
			db.checkTimeTimeOut(checkTime, farFuture, glockIndex, queues)
		}
	}
}

func TestZZExploreAckVsTimeout(t *testing.T) {
	dataDir, err := os.MkdirTemp("", "zzx9")
	if err != nil {
		t.Fatalf("temp dir: %v", err)
	}
	defer os.RemoveAll(dataDir)

	serverConfig := &ServerConfig{}
	if _, err = flags.NewParser(serverConfig, flags.Default).ParseArgs([]string{}); err != nil {
		t.Fatalf("config: %v", err)
	}
	serverConfig.DataDir = dataDir
	serverConfig.DBConcurrent = 1
	serverConfig.DBFastKeyCount = 64
	serverConfig.LogLevel = "ERROR"
	logger, _ := InitLogger(serverConfig)
	slock := NewSLock(serverConfig, logger)
	if err = slock.initLeader(); err != nil {
		t.Fatalf("init leader: %v", err)
	}
	db := slock.GetOrNewDB(0)
	defer func() {
		db.Close()
		slock.aof.Close()
	}()

	recorder := &zzx9Recorder{}
	client := NewMemWaiterServerProtocol(slock)
	_ = client.SetResultCallback(recorder.callback)

	lockKey, lockId, r1 := zzx9Id('k', 1), zzx9Id('l', 1), zzx9Id('r', 1)
	command := &protocol.LockCommand{
		Command:     protocol.Command{Magic: protocol.MAGIC, Version: protocol.VERSION, CommandType: protocol.COMMAND_LOCK, RequestId: r1},
		DbId:        0,
		LockId:      lockId,
		LockKey:     lockKey,
		TimeoutFlag: protocol.TIMEOUT_FLAG_REQUIRE_ACKED,
		Timeout:     30,
		Expried:     50,
		Count:       0,
		Rcount:      0,
	}
	slock.aof.aofGlock.Lock()
	_ = client.ProcessLockCommand(command)
	time.Sleep(300 * time.Millisecond)
	lockManager := db.GetLockManager(command)
	zzx9SweepTimeOut(db, lockManager.glockIndex)
	t.Logf("after sweep: %v", recorder.snapshot())
	slock.aof.aofGlock.Unlock()
	time.Sleep(1500 * time.Millisecond)
	t.Logf("after aof resumed: %v", recorder.snapshot())
	if len(recorder.snapshot()) != 1 {
		t.Fatalf("double reply: %v %v", fmt.Sprint(len(recorder.snapshot())), recorder.snapshot())
	}
}
