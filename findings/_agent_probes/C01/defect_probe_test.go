package server

import (
	"os"
	"sync"
	"sync/atomic"
	"testing"
	"time"

	"github.com/jessevdk/go-flags"
	"github.com/snower/slock/protocol"
)

type zzProbeReply struct {
	requestId [16]byte
	result    uint8
	lcount    uint16
	lrcount   uint8
}

type zzProbeEnv struct {
	slock   *SLock
	db      *LockDB
	proto   *MemWaiterServerProtocol
	mu      sync.Mutex
	replies []zzProbeReply
	seq     byte
}

func zzProbeBoot(t *testing.T) (*zzProbeEnv, func()) {
	dir, err := os.MkdirTemp("", "zzprobe")
	if err != nil {
		t.Fatalf("tempdir: %v", err)
	}
	cfg := &ServerConfig{}
	if _, err = flags.NewParser(cfg, flags.Default).ParseArgs([]string{}); err != nil {
		t.Fatalf("config: %v", err)
	}
	cfg.DataDir = dir
	cfg.DBConcurrent = 1
	cfg.DBFastKeyCount = 64
	logger, _ := InitLogger(cfg)
	s := NewSLock(cfg, logger)
	s.state = STATE_LEADER
	s.aof.dataDir = dir
	s.aof.rewriteSize = uint32(cfg.AofFileRewriteSize)
	env := &zzProbeEnv{slock: s}
	env.db = s.GetOrNewDB(0)
	env.proto = NewMemWaiterServerProtocol(s)
	_ = env.proto.SetResultCallback(func(_ *MemWaiterServerProtocol, command *protocol.LockCommand, result uint8, lcount uint16, lrcount uint8, _ []byte) error {
		env.mu.Lock()
		env.replies = append(env.replies, zzProbeReply{command.RequestId, result, lcount, lrcount})
		env.mu.Unlock()
		return nil
	})
	return env, func() {
		_ = env.proto.Close()
		aofChannels := env.db.aofChannels
		env.db.status = STATE_CLOSE
		env.db.Close()
		for _, aofChannel := range aofChannels {
			select {
			case <-aofChannel.closedWaiter:
			case <-time.After(3 * time.Second):
			}
		}
		s.aof.aofGlock.Lock()
		if s.aof.aofFile != nil {
			_ = s.aof.aofFile.Close()
			s.aof.aofFile = nil
		}
		s.aof.aofGlock.Unlock()
		_ = os.RemoveAll(dir)
	}
}

func (env *zzProbeEnv) command(commandType uint8, key byte, lockId byte) *protocol.LockCommand {
	env.seq++
	c := &protocol.LockCommand{}
	c.Magic = protocol.MAGIC
	c.Version = protocol.VERSION
	c.CommandType = commandType
	c.RequestId = [16]byte{0xee, env.seq}
	c.DbId = 0
	c.LockKey = [16]byte{key, 0x5a}
	c.LockId = [16]byte{lockId, 0xa5}
	return c
}

func (env *zzProbeEnv) result(t *testing.T, requestId [16]byte) (uint8, bool) {
	env.mu.Lock()
	defer env.mu.Unlock()
	for _, r := range env.replies {
		if r.requestId == requestId {
			return r.result, true
		}
	}
	return 0, false
}

// Probe for a defect in the UNCHANGED code: RemoveLockManager's slow-table branch
// deletes the key-table entry by key without checking that the entry is still the
// manager being removed. A GetOrNewLockManager for the same key that runs between
// the tombstone CAS and the table delete installs a fresh manager, which the
// remover then deletes from the table; the fresh manager (with a live holder)
// becomes unreachable and the next request builds a third manager for the key.
func TestZZProbeRemoveLockManagerDeletesSuccessor(t *testing.T) {
	env, cleanup := zzProbeBoot(t)
	defer cleanup()
	db := env.db

	// key 1 occupies fast slot 1; key 65 hashes to the same slot and lives in the slow table
	other := env.command(protocol.COMMAND_LOCK, 1, 1)
	other.LockKey = [16]byte{1}
	other.Expried = 300
	_ = db.Lock(env.proto, other, 0)

	key := [16]byte{65}
	a := env.command(protocol.COMMAND_LOCK, 0, 0xa)
	a.LockKey = key
	a.Expried = 2
	aId := a.RequestId
	_ = db.Lock(env.proto, a, 0)
	if r, ok := env.result(t, aId); !ok || r != protocol.RESULT_SUCCED {
		t.Fatalf("holder a not granted")
	}
	db.mGlock.RLock()
	m1 := db.locks[key]
	db.mGlock.RUnlock()
	if m1 == nil {
		t.Fatalf("precondition: key must live in the slow table")
	}
	ua := env.command(protocol.COMMAND_UNLOCK, 0, 0xa)
	ua.LockKey = key
	uaId := ua.RequestId
	_ = db.UnLock(env.proto, ua, 0)
	if r, ok := env.result(t, uaId); !ok || r != protocol.RESULT_SUCCED {
		t.Fatalf("holder a not unlocked")
	}
	if m1.locked != 0 || atomic.LoadUint32(&m1.refCount) != 1 {
		t.Fatalf("precondition: manager should be idle with one dead lock object pending, locked=%d ref=%d", m1.locked, m1.refCount)
	}

	// force the interleaving with the table lock: reader held by the test
	db.mGlock.RLock()
	b := env.command(protocol.COMMAND_LOCK, 0, 0xb)
	b.LockKey = key
	b.Expried = 300
	bId := b.RequestId
	bDone := make(chan struct{})
	go func() {
		_ = db.Lock(env.proto, b, 0) // parks in GetOrNewLockManager at mGlock.Lock()
		close(bDone)
	}()
	time.Sleep(300 * time.Millisecond)

	sweepDone := make(chan struct{})
	go func() {
		queues := make([]*LockQueue, 5)
		for i := int64(0); i < EXPRIED_QUEUE_LENGTH; i++ {
			db.checkTimeExpried(i, db.currentTime, m1.glockIndex, queues) // frees the dead lock object -> RemoveLockManager(m1)
		}
		close(sweepDone)
	}()
	deadline := time.Now().Add(10 * time.Second)
	for atomic.LoadUint32(&m1.refCount) != 0xffffffff {
		if time.Now().After(deadline) {
			db.mGlock.RUnlock()
			t.Fatalf("remover never reached the tombstone")
		}
		time.Sleep(time.Millisecond)
	}
	time.Sleep(100 * time.Millisecond)
	db.mGlock.RUnlock()
	<-bDone
	<-sweepDone

	if r, ok := env.result(t, bId); !ok || r != protocol.RESULT_SUCCED {
		t.Fatalf("holder b not granted: %v %v", r, ok)
	}

	c := env.command(protocol.COMMAND_LOCK, 0, 0xc)
	c.LockKey = key
	c.Expried = 300
	cId := c.RequestId
	_ = db.Lock(env.proto, c, 0)
	r, ok := env.result(t, cId)
	if !ok {
		t.Fatalf("request c got no reply")
	}
	if r == protocol.RESULT_SUCCED {
		t.Fatalf("C01 violated in unchanged code: Count=0 key granted to c while b (granted, not unlocked, expiry 300s) still holds it")
	}
}
