// PROBES OF THE UNCHANGED TREE (package server; copy into server/ to run).
// All three tests FAIL on the unchanged worktree HEAD - each one documents behaviour of the
// original code that is at odds with property C10 (see the final report):
//   go test -mod=mod -vet=off -count=1 -run TestZZProbe ./server
package server

import (
	"net"
	"strings"
	"sync"
	"testing"
	"time"

	"github.com/jessevdk/go-flags"
	"github.com/snower/slock/protocol"
)

type zzProbeReply struct {
	requestId [16]byte
	result    uint8
	lcount    uint16
}

func zzProbeNewSLock(t *testing.T, state uint8) (*SLock, *LockDB) {
	serverConfig := &ServerConfig{}
	parse := flags.NewParser(serverConfig, flags.Default)
	if _, err := parse.ParseArgs([]string{}); err != nil {
		t.Fatalf("config parse fail %v", err)
	}
	logger, _ := InitLogger(serverConfig)
	slock := NewSLock(serverConfig, logger)
	slock.state = state
	db := NewLockDB(slock, 0)
	slock.dbs[0] = db
	return slock, db
}

func zzProbeKey(s string) [16]byte {
	k := [16]byte{}
	copy(k[:], s)
	return k
}

// Probe 1: a demoted leader that still has a queued waiter grants it on its own
// when the replicated UNLOCK of the holder arrives.
func TestZZProbeDemotedLeaderGrantsWaiter(t *testing.T) {
	slock, db := zzProbeNewSLock(t, STATE_LEADER)
	sp := NewMemWaiterServerProtocol(slock)
	mu := sync.Mutex{}
	replies := make([]zzProbeReply, 0)
	_ = sp.SetResultCallback(func(_ *MemWaiterServerProtocol, c *protocol.LockCommand, result uint8, lcount uint16, _ uint8, _ []byte) error {
		mu.Lock()
		replies = append(replies, zzProbeReply{c.RequestId, result, lcount})
		mu.Unlock()
		return nil
	})
	key := zzProbeKey("probe-key-1")
	hold := &protocol.LockCommand{Command: protocol.Command{Magic: protocol.MAGIC, Version: protocol.VERSION, CommandType: protocol.COMMAND_LOCK, RequestId: protocol.GenRequestId()},
		Flag: protocol.LOCK_FLAG_FROM_AOF, DbId: 0, LockId: zzProbeKey("holder"), LockKey: key, Timeout: 0, Expried: 100}
	_ = db.Lock(sp, hold, 0)
	waiter := &protocol.LockCommand{Command: protocol.Command{Magic: protocol.MAGIC, Version: protocol.VERSION, CommandType: protocol.COMMAND_LOCK, RequestId: protocol.GenRequestId()},
		Flag: 0, DbId: 0, LockId: zzProbeKey("waiter"), LockKey: key, Timeout: 50, Expried: 100}
	_ = db.Lock(sp, waiter, 0)

	// role change
	slock.state = STATE_FOLLOWER
	db.status = STATE_FOLLOWER

	// the new leader's stream releases the holder
	unlock := &protocol.LockCommand{Command: protocol.Command{Magic: protocol.MAGIC, Version: protocol.VERSION, CommandType: protocol.COMMAND_UNLOCK, RequestId: protocol.GenRequestId()},
		Flag: protocol.UNLOCK_FLAG_FROM_AOF, DbId: 0, LockId: zzProbeKey("holder"), LockKey: key}
	_ = db.UnLock(sp, unlock, 0)

	mu.Lock()
	defer mu.Unlock()
	for _, r := range replies {
		if r.requestId == waiter.RequestId && r.result == protocol.RESULT_SUCCED {
			t.Fatalf("non-leader granted a queued client request on its own: %+v", r)
		}
	}
}

// Probe 2: the text protocol runs the first command of a connection locally even on a
// follower, and "FLAG 4" sets the from-AOF bit, so the follower grants on its own.
func TestZZProbeTextFlagFromAofOnFollower(t *testing.T) {
	slock, db := zzProbeNewSLock(t, STATE_FOLLOWER)
	server := &Server{slock: slock, glock: &sync.Mutex{}}
	c1, c2 := net.Pipe()
	defer c1.Close()
	defer c2.Close()
	stream := NewStream(c2)
	out := make(chan string, 4)
	go func() {
		buf := make([]byte, 4096)
		_ = c1.SetReadDeadline(time.Now().Add(5 * time.Second))
		n, _ := c1.Read(buf)
		out <- string(buf[:n])
	}()
	go func() {
		req := "*4\r\n$4\r\nLOCK\r\n$2\r\nk2\r\n$4\r\nFLAG\r\n$1\r\n4\r\n"
		_, _ = c1.Write([]byte(req))
	}()
	sp, err := server.checkProtocol(stream)
	if err != nil {
		t.Fatalf("checkProtocol error %v", err)
	}
	_ = sp
	reply := <-out
	key := [16]byte{}
	(&protocol.TextCommandConverter{}).ConvertArgId2LockId("k2", &key)
	lm := db.GetLockManager(&protocol.LockCommand{LockKey: key})
	locked := uint32(0)
	if lm != nil {
		locked = lm.locked
	}
	if locked != 0 || !strings.Contains(reply, "STATE_ERROR") && !strings.Contains(reply, "ERR") {
		t.Fatalf("follower answered a client LOCK on its own: reply=%q locked=%d", reply, locked)
	}
}

// Probe 3: minute-granularity replicated locks with 1 minute left are never taken by a follower.
func TestZZProbeMinuteExpriedReplay(t *testing.T) {
	slock, db := zzProbeNewSLock(t, STATE_FOLLOWER)
	aofLock := &AofLock{ExpriedFlag: protocol.EXPRIED_FLAG_MINUTE_TIME, ExpriedTime: 1, CommandTime: uint64(db.currentTime)}
	if v := slock.aof.GetLockCommandExpriedTime(db, aofLock); v == 0 {
		t.Fatalf("a 1-minute lock replayed in the same second gets remaining expried 0 on the follower")
	}
}
