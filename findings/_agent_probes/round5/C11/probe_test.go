package server

import (
	"os"
	"sync"
	"sync/atomic"
	"testing"
	"time"

	"github.com/jessevdk/go-flags"
	"github.com/snower/slock/protocol"
)

// Probes against the UNCHANGED tree (property C11). Each test fails when the
// suspected defect is present.

type zzProbeEnv struct {
	t        *testing.T
	slock    *SLock
	db       *LockDB
	ackDb    *ReplicationAckDB
	protocol *MemWaiterServerProtocol
	glock    *sync.Mutex
	replies  map[[16]byte][]uint8
	dataDir  string
}

func newZZProbeEnv(t *testing.T, ackCount uint8) *zzProbeEnv {
	dataDir, err := os.MkdirTemp("", "zzprobe")
	if err != nil {
		t.Fatal(err)
	}
	serverConfig := &ServerConfig{}
	parse := flags.NewParser(serverConfig, flags.Default)
	if _, err = parse.ParseArgs([]string{}); err != nil {
		t.Fatal(err)
	}
	serverConfig.DataDir = dataDir
	logger, _ := InitLogger(serverConfig)
	slock := NewSLock(serverConfig, logger)
	if err = slock.initLeader(); err != nil {
		t.Fatalf("init leader error %v", err)
	}
	env := &zzProbeEnv{t: t, slock: slock, db: slock.GetOrNewDB(0), glock: &sync.Mutex{}, replies: make(map[[16]byte][]uint8), dataDir: dataDir}
	env.ackDb = slock.replicationManager.GetOrNewAckDB(0)
	env.ackDb.ackCount = ackCount
	env.protocol = NewMemWaiterServerProtocol(slock)
	_ = env.protocol.SetResultCallback(func(_ *MemWaiterServerProtocol, command *protocol.LockCommand, result uint8, _ uint16, _ uint8, _ []byte) error {
		env.glock.Lock()
		env.replies[command.RequestId] = append(env.replies[command.RequestId], result)
		env.glock.Unlock()
		return nil
	})
	return env
}

func (self *zzProbeEnv) close() {
	self.db.Close()
	self.slock.aof.Close()
	_ = os.RemoveAll(self.dataDir)
}

func (self *zzProbeEnv) getReplies(requestId [16]byte) []uint8 {
	self.glock.Lock()
	defer self.glock.Unlock()
	return append([]uint8(nil), self.replies[requestId]...)
}

func (self *zzProbeEnv) command(commandType uint8, key byte, tag byte, seq byte) *protocol.LockCommand {
	command := &protocol.LockCommand{}
	command.Magic, command.Version = protocol.MAGIC, protocol.VERSION
	command.CommandType = commandType
	command.RequestId = [16]byte{tag, seq, 0xee}
	command.LockKey = [16]byte{key, 0xc1, 0x1d, 4, 5, 6, 7, 8, 9, 10, 11, 12, 13, 14, 15, 16}
	command.LockId = [16]byte{tag, 0xdd}
	command.Timeout = 20
	command.Expried = 60
	return command
}

func (self *zzProbeEnv) waitPending(requestId [16]byte, ackCount uint8) (uint16, [16]byte, *Lock) {
	deadline := time.Now().Add(10 * time.Second)
	for time.Now().Before(deadline) {
		for i := uint16(0); i < self.ackDb.ackMaxGlocks; i++ {
			self.ackDb.ackGlocks[i].Lock()
			if aofId, ok := self.ackDb.commandAofs[i][requestId]; ok {
				if lock, lok := self.ackDb.aofLocks[i][aofId]; lok && lock.ackCount == ackCount {
					self.ackDb.ackGlocks[i].Unlock()
					return i, aofId, lock
				}
			}
			self.ackDb.ackGlocks[i].Unlock()
		}
		time.Sleep(5 * time.Millisecond)
	}
	self.t.Fatalf("request %x never became pending with %d acknowledgements left", requestId[:2], ackCount)
	return 0, [16]byte{}, nil
}

func (self *zzProbeEnv) followerAck(glockIndex uint16, aofId [16]byte, result uint8) {
	aofLock := NewAofLock()
	aofLock.CommandType = protocol.COMMAND_LOCK
	aofLock.SetAofId(aofId)
	aofLock.Result = result
	_ = self.ackDb.ProcessLeaderAcked(glockIndex, aofLock)
}

// P1: require-ack combined with "never persist" (text protocol: SET key v ACK NAOF, binary:
// TIMEOUT_FLAG_REQUIRE_ACKED + EXPRIED_FLAG_UNLIMITED_AOF_TIME). The request is answered SUCCED
// at once (no log write, no acknowledgement) and the hold keeps ackCount == 0, so its owner's
// unlock is refused with LOCK_ACK_WAITING until the hold expires.
func TestZZProbeAckWithUnlimitedAofTime(t *testing.T) {
	env := newZZProbeEnv(t, 2)
	defer env.close()

	lockCommand := env.command(protocol.COMMAND_LOCK, 1, 0xa1, 1)
	lockCommand.TimeoutFlag = protocol.TIMEOUT_FLAG_REQUIRE_ACKED
	lockCommand.ExpriedFlag = protocol.EXPRIED_FLAG_UNLIMITED_AOF_TIME
	requestId := lockCommand.RequestId
	_ = env.db.Lock(env.protocol, lockCommand, 0)
	time.Sleep(100 * time.Millisecond)
	if r := env.getReplies(requestId); len(r) != 0 {
		t.Errorf("require-ack lock answered %v with no follower acknowledgement (one follower required)", r)
	}
	unlockCommand := env.command(protocol.COMMAND_UNLOCK, 1, 0xa1, 2)
	unlockRequestId := unlockCommand.RequestId
	_ = env.db.UnLock(env.protocol, unlockCommand, 0)
	if r := env.getReplies(unlockRequestId); len(r) == 1 && r[0] == protocol.RESULT_LOCK_ACK_WAITING && len(env.getReplies(requestId)) > 0 {
		t.Errorf("lock was already answered %v but its unlock is refused with LOCK_ACK_WAITING", env.getReplies(requestId))
	}
}

// P2: majority mode, leader + 2 followers => 2 acknowledgements required. The counter does not
// distinguish the leader's own log flush from follower acknowledgements: two follower
// acknowledgements complete the request although the leader's own log has not been written
// (the flush is deferred because a sibling log channel is still busy).
func TestZZProbeMajorityWithoutOwnLog(t *testing.T) {
	env := newZZProbeEnv(t, 2)
	defer env.close()

	atomic.AddUint32(&env.slock.aof.channelActiveCount, 1) // a sibling channel is busy: no idle flush
	released := false
	defer func() {
		if !released {
			atomic.AddUint32(&env.slock.aof.channelActiveCount, 0xffffffff)
		}
	}()

	lockCommand := env.command(protocol.COMMAND_LOCK, 2, 0xa2, 1)
	lockCommand.TimeoutFlag = protocol.TIMEOUT_FLAG_REQUIRE_ACKED
	requestId := lockCommand.RequestId
	_ = env.db.Lock(env.protocol, lockCommand, 0)
	glockIndex, aofId, _ := env.waitPending(requestId, 2)
	env.slock.aof.aofGlock.Lock()
	unflushed := env.slock.aof.aofFile.windex
	env.slock.aof.aofGlock.Unlock()
	if unflushed == 0 {
		t.Skipf("leader log already flushed, scenario not reached")
	}
	env.followerAck(glockIndex, aofId, protocol.RESULT_SUCCED)
	env.followerAck(glockIndex, aofId, protocol.RESULT_SUCCED)
	env.slock.aof.aofGlock.Lock()
	unflushed = env.slock.aof.aofFile.windex
	env.slock.aof.aofGlock.Unlock()
	if r := env.getReplies(requestId); len(r) > 0 && unflushed > 0 {
		t.Errorf("request answered %v while %d bytes of the leader's own log (including its record) are still unwritten", r, unflushed)
	}
	atomic.AddUint32(&env.slock.aof.channelActiveCount, 0xffffffff)
	released = true
}

// P3: undo of a failed ack INCR on a two-slot key discards the increment another holder made in between.
func TestZZProbeFailedAckIncrKeepsOtherHoldersIncrement(t *testing.T) {
	env := newZZProbeEnv(t, 2)
	defer env.close()

	commandA := env.command(protocol.COMMAND_LOCK, 3, 0xa3, 1)
	commandA.TimeoutFlag = protocol.TIMEOUT_FLAG_REQUIRE_ACKED
	commandA.Flag = protocol.LOCK_FLAG_CONTAINS_DATA
	commandA.Count = 1
	commandA.Data = protocol.NewLockCommandDataIncrData(5)
	requestIdA := commandA.RequestId
	_ = env.db.Lock(env.protocol, commandA, 0)
	glockIndex, aofId, lockA := env.waitPending(requestIdA, 1)

	commandB := env.command(protocol.COMMAND_LOCK, 3, 0xb3, 1)
	commandB.Flag = protocol.LOCK_FLAG_CONTAINS_DATA
	commandB.Count = 1
	commandB.Data = protocol.NewLockCommandDataIncrData(3)
	requestIdB := commandB.RequestId
	_ = env.db.Lock(env.protocol, commandB, 0)
	if r := env.getReplies(requestIdB); len(r) != 1 || r[0] != protocol.RESULT_SUCCED {
		t.Fatalf("B expected SUCCED got %v", r)
	}
	lockManager := lockA.manager
	if v := lockManager.currentData.GetIncrValue(); v != 8 {
		t.Fatalf("value expected 8 got %d", v)
	}
	env.followerAck(glockIndex, aofId, protocol.RESULT_ERROR)
	if r := env.getReplies(requestIdA); len(r) != 1 || r[0] == protocol.RESULT_SUCCED {
		t.Fatalf("A expected one error reply got %v", r)
	}
	lockManager.glock.Lock()
	value := int64(-1)
	if lockManager.currentData != nil {
		value = lockManager.currentData.GetIncrValue()
	}
	lockManager.glock.Unlock()
	if value != 3 {
		t.Errorf("after A's failed acknowledgement the value is %d, expected 3 (B's successful increment must survive, only A's +5 is undone)", value)
	}
}

// P4: undo of a failed ack PIPELINE whose last step is INCR on an existing value.
func TestZZProbeFailedAckPipelineUndo(t *testing.T) {
	env := newZZProbeEnv(t, 2)
	defer env.close()

	// existing value 10 written by an ordinary zero-expiry lock
	commandS := env.command(protocol.COMMAND_LOCK, 4, 0x54, 1)
	commandS.Flag = protocol.LOCK_FLAG_CONTAINS_DATA
	commandS.Count = 1
	commandS.Data = protocol.NewLockCommandDataIncrData(10)
	_ = env.db.Lock(env.protocol, commandS, 0)

	commandA := env.command(protocol.COMMAND_LOCK, 4, 0xa4, 1)
	commandA.TimeoutFlag = protocol.TIMEOUT_FLAG_REQUIRE_ACKED
	commandA.Flag = protocol.LOCK_FLAG_CONTAINS_DATA
	commandA.Count = 1
	commandA.Data = protocol.NewLockCommandDataPipelineData([]*protocol.LockCommandData{protocol.NewLockCommandDataIncrData(1), protocol.NewLockCommandDataIncrData(2)})
	requestIdA := commandA.RequestId
	_ = env.db.Lock(env.protocol, commandA, 0)
	glockIndex, aofId, lockA := env.waitPending(requestIdA, 1)
	lockManager := lockA.manager
	func() {
		defer func() {
			if r := recover(); r != nil {
				t.Errorf("negative follower acknowledgement of a PIPELINE ack lock panics: %v", r)
				// the panic left the key's mutex locked
			}
		}()
		env.followerAck(glockIndex, aofId, protocol.RESULT_ERROR)
	}()
	if t.Failed() {
		return
	}
	if r := env.getReplies(requestIdA); len(r) != 1 || r[0] == protocol.RESULT_SUCCED {
		t.Fatalf("A expected one error reply got %v", r)
	}
	value := int64(-1)
	if lockManager.currentData != nil {
		value = lockManager.currentData.GetIncrValue()
	}
	if value != 10 {
		t.Errorf("after the failed acknowledgement the value is %d, expected 10", value)
	}
}
