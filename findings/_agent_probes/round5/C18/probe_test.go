package server

import (
	"fmt"
	"io"
	"net"
	"strings"
	"testing"
	"time"

	"github.com/jessevdk/go-flags"
	"github.com/snower/slock/protocol"
)

func zzProbeNewLeader(t *testing.T) (*SLock, *LockDB) {
	serverConfig := &ServerConfig{}
	parse := flags.NewParser(serverConfig, flags.Default)
	if _, err := parse.ParseArgs([]string{}); err != nil {
		t.Fatalf("config parse fail %v", err)
	}
	logger, _ := InitLogger(serverConfig)
	slock := NewSLock(serverConfig, logger)
	slock.state = STATE_LEADER
	return slock, slock.GetOrNewDB(0)
}

func zzProbeKey(s string) [16]byte {
	key := [16]byte{}
	copy(key[:], s)
	return key
}

func zzProbeResp(args ...string) []byte {
	b := fmt.Sprintf("*%d\r\n", len(args))
	for _, arg := range args {
		b += fmt.Sprintf("$%d\r\n%s\r\n", len(arg), arg)
	}
	return []byte(b)
}

// Probe of the UNCHANGED code: a text LOCK that carries the WILL option twice
// ("WILL 1 WILL 1") is neither registered as a will nor rejected: the converter
// adds 7 to the command type once per option (1+7+7 = 15), the handler only
// recognises 8, and the lock is taken at once - before the connection ends.
func TestZZProbeTextWillOptionTwiceRunsAtOnce(t *testing.T) {
	slock, db := zzProbeNewLeader(t)
	defer db.Close()

	cClient, cServer := net.Pipe()
	defer cClient.Close()
	go func() { _, _ = io.Copy(io.Discard, cClient) }()
	textProtocol := NewTextServerProtocol(slock, NewStream(cServer))
	done := make(chan error, 1)
	go func() {
		done <- textProtocol.commandHandlerLock(textProtocol, []string{"LOCK", "zzprobe-key-0002", "EXPRIED", fmt.Sprintf("%d", 30|int(protocol.EXPRIED_FLAG_UNLIMITED_AOF_TIME)<<16), "WILL", "1", "WILL", "1"})
	}()
	select {
	case err := <-done:
		if err != nil {
			t.Fatalf("handler fail %v", err)
		}
	case <-time.After(10 * time.Second):
		t.Fatalf("handler did not finish")
	}

	lockManager := db.GetLockManager(&protocol.LockCommand{DbId: 0, LockKey: zzProbeKey("zzprobe-key-0002")})
	registered := textProtocol.willCommands != nil && textProtocol.willCommands.Len() > 0
	held := lockManager != nil && lockManager.locked > 0
	_ = textProtocol.Close()
	if held || !registered {
		t.Fatalf("command marked as a will: registered as will=%v, key held before the connection ended=%v", registered, held)
	}
}

// Probe of the UNCHANGED code: one client connection registers will A (binary
// WILL_LOCK of key k), switches the connection to the text protocol with ADMIN,
// and registers will B (text UNLOCK of the same key and lock id). When the
// connection ends the wills of the text part run first and the wills of the
// binary part afterwards, i.e. B before A - not in registration order: the key
// ends up held although the later registered will releases it.
func TestZZProbeWillOrderAcrossAdminSwitch(t *testing.T) {
	slock, db := zzProbeNewLeader(t)
	defer db.Close()

	cClient, cServer := net.Pipe()
	defer cClient.Close()
	binaryProtocol := NewBinaryServerProtocol(slock, NewStream(cServer))
	key, lockId := zzProbeKey("zzprobe-key-0001"), zzProbeKey("zzprobe-lid-0001")
	willLock := &protocol.LockCommand{Command: protocol.Command{Magic: protocol.MAGIC, Version: protocol.VERSION, CommandType: protocol.COMMAND_WILL_LOCK,
		RequestId: protocol.GenRequestId()}, DbId: 0, LockId: lockId, LockKey: key, Timeout: 0, Expried: 30, ExpriedFlag: protocol.EXPRIED_FLAG_UNLIMITED_AOF_TIME}
	if err := binaryProtocol.ProcessCommad(willLock); err != nil {
		t.Fatalf("binary will registration fail %v", err)
	}

	adminDone := make(chan error, 1)
	go func() {
		adminDone <- binaryProtocol.ProcessCommad(protocol.NewAdminCommand(0))
	}()
	_ = cClient.SetDeadline(time.Now().Add(10 * time.Second))
	frame := make([]byte, 64)
	if _, err := io.ReadFull(cClient, frame); err != nil || frame[2] != protocol.COMMAND_ADMIN || frame[19] != protocol.RESULT_SUCCED {
		t.Fatalf("admin switch fail %v %v", err, frame)
	}
	if _, err := cClient.Write(zzProbeResp("UNLOCK", "zzprobe-key-0001", "LOCK_ID", "zzprobe-lid-0001", "WILL", "1")); err != nil {
		t.Fatalf("text will write fail %v", err)
	}
	answer := make([]byte, 64)
	n, err := cClient.Read(answer)
	if err != nil || !strings.HasPrefix(string(answer[:n]), "+OK") {
		t.Fatalf("text will registration fail %v %q", err, answer[:n])
	}
	_ = cClient.Close()
	select {
	case <-adminDone:
	case <-time.After(10 * time.Second):
		t.Fatalf("text part did not end")
	}
	_ = binaryProtocol.Close()

	lockManager := db.GetLockManager(&protocol.LockCommand{DbId: 0, LockKey: key})
	if lockManager != nil && lockManager.locked > 0 {
		t.Fatalf("wills did not run in registration order (LOCK then UNLOCK): key is still held, locked=%d", lockManager.locked)
	}
}
