package server

import (
	"testing"

	"github.com/snower/slock/protocol"
)

// Probe: key holds a value with a property block (what the text SET stores); an INCR value frame whose
// operand is not exactly 8 bytes long rebuilds the stored frame without filling in its 4-byte length header.
func TestZZProbeIncrOnPropertyValueLeavesZeroLengthHeader(t *testing.T) {
	testWithLockDB(t, func(db *LockDB) {
		lockKey := protocol.GenLockId()
		lockCommand := protocol.NewLockCommand(db.dbId, lockKey, protocol.GenLockId(), 10, 10, 0)
		lockCommand.Data = protocol.NewLockCommandDataSetStringWithProperty("5", []*protocol.LockCommandDataProperty{protocol.NewLockCommandDataProperty(protocol.LOCK_DATA_PROPERTY_CODE_KEY, []byte("k"))})
		lockManager := db.GetOrNewLockManager(lockCommand)
		lock := lockManager.GetOrNewLock(defaultServerProtocol, lockCommand)
		lockManager.ProcessLockData(lockCommand, lock, false)
		lockManager.FreeLock(lock)

		lockCommand = protocol.NewLockCommand(db.dbId, lockKey, protocol.GenLockId(), 10, 10, 0)
		lockCommand.Data = protocol.NewLockCommandDataFromOriginBytes([]byte{3, 0, 0, 0, protocol.LOCK_DATA_COMMAND_TYPE_INCR, protocol.LOCK_DATA_FLAG_VALUE_TYPE_NUMBER, 2})
		lock = lockManager.GetOrNewLock(defaultServerProtocol, lockCommand)
		lockManager.ProcessLockData(lockCommand, lock, false)
		data := lockManager.GetLockData()
		declared := int(uint32(data[0]) | uint32(data[1])<<8 | uint32(data[2])<<16 | uint32(data[3])<<24)
		if declared != len(data)-4 {
			t.Fatalf("stored value frame declares %d bytes but carries %d (frame % x)", declared, len(data)-4, data)
		}
	})
}
