package server

import (
	"testing"

	"github.com/snower/slock/protocol"
)

// Probe: a PIPELINE value frame whose last value-changing sub-operation is INCR (or APPEND / SHIFT / PUSH),
// applied with requireRecover (ack-required lock) on a key that already has a value, then undone
// (ack refused or timed out) -> ProcessRecoverLockData asserts recoverValue.(int64) on a nil interface.
func TestZZProbePipelineRecoverNilValue(t *testing.T) {
	testWithLockDB(t, func(db *LockDB) {
		lockKey := protocol.GenLockId()
		lockCommand := protocol.NewLockCommand(db.dbId, lockKey, protocol.GenLockId(), 10, 10, 0)
		lockCommand.Data = protocol.NewLockCommandDataIncrData(5)
		lockManager := db.GetOrNewLockManager(lockCommand)
		lock := lockManager.GetOrNewLock(defaultServerProtocol, lockCommand)
		lockManager.ProcessLockData(lockCommand, lock, false)
		lockManager.FreeLock(lock)

		lockCommand = protocol.NewLockCommand(db.dbId, lockKey, protocol.GenLockId(), 10, 10, 0)
		lockCommand.Data = protocol.NewLockCommandDataPipelineData([]*protocol.LockCommandData{
			protocol.NewLockCommandDataIncrData(2),
		})
		lock = lockManager.GetOrNewLock(defaultServerProtocol, lockCommand)
		lockManager.ProcessLockData(lockCommand, lock, true)
		defer func() {
			if r := recover(); r != nil {
				t.Fatalf("ProcessRecoverLockData panicked: %v", r)
			}
		}()
		lockManager.ProcessRecoverLockData(lock)
	})
}
