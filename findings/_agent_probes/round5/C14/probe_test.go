package protocol

import (
	"strings"
	"testing"
)

// Probes of the UNCHANGED tree (package protocol). Each one fails on the unchanged code.

type zzProbeStream struct{ out []byte }

func (s *zzProbeStream) ReadBytes(b []byte) (int, error) { return 0, nil }
func (s *zzProbeStream) Read(b []byte) (int, error)      { return 0, nil }
func (s *zzProbeStream) WriteBytes(b []byte) error       { s.out = append(s.out, b...); return nil }
func (s *zzProbeStream) Write(b []byte) (int, error)     { s.out = append(s.out, b...); return len(b), nil }
func (s *zzProbeStream) Close() error                    { return nil }

type zzProbeTextProtocol struct{ parser *TextParser }

func (p *zzProbeTextProtocol) GetDBId() uint8                     { return 0 }
func (p *zzProbeTextProtocol) GetLockId() [16]byte                { return [16]byte{} }
func (p *zzProbeTextProtocol) GetTimeout() uint16                 { return 15 }
func (p *zzProbeTextProtocol) GetLockCommand() *LockCommand       { return &LockCommand{} }
func (p *zzProbeTextProtocol) FreeLockCommand(*LockCommand) error { return nil }
func (p *zzProbeTextProtocol) GetParser() *TextParser             { return p.parser }

// 1. LeaderResultCommand.Decode trusts the HostLen byte: a 64-byte input with buf[20] > 43 panics
// (slice bounds out of range) instead of decoding or returning an error.
func TestZZProbeLeaderResultDecodeHostLen(t *testing.T) {
	defer func() {
		if r := recover(); r != nil {
			t.Fatalf("LeaderResultCommand.Decode panicked on a 64-byte input: %v", r)
		}
	}()
	buf := make([]byte, 64)
	buf[0], buf[1], buf[2], buf[20] = MAGIC, VERSION, COMMAND_LEADER, 200
	command := LeaderResultCommand{}
	_ = command.Decode(buf)
}

// 2. The text rendering adds 1 to COUNT/RCOUNT in the field's own width: Count=0xffff renders as
// COUNT 0 and Rcount=0xff as RCOUNT 0.
func TestZZProbeTextResultCountWraps(t *testing.T) {
	textProtocol := &zzProbeTextProtocol{NewTextParser(make([]byte, 1024), make([]byte, 1024))}
	result := &LockResultCommand{}
	result.Magic, result.Version, result.CommandType = MAGIC, VERSION, COMMAND_LOCK
	result.Count, result.Rcount = 0xffff, 0xff
	stream := &zzProbeStream{}
	if err := NewTextCommandConverter().WriteTextLockAndUnLockCommandResult(textProtocol, stream, result); err != nil {
		t.Fatal(err)
	}
	if !strings.Contains(string(stream.out), "COUNT\r\n$5\r\n65536\r\n") || !strings.Contains(string(stream.out), "RCOUNT\r\n$3\r\n256\r\n") {
		t.Fatalf("COUNT/RCOUNT rendering wrapped: %q", stream.out)
	}
}

// 3. In a text LOCK the FLAG argument overwrites the flag byte, so "SET v FLAG 2" carries a value
// frame without LOCK_FLAG_CONTAINS_DATA while "FLAG 2 SET v" has it: argument order changes the command.
func TestZZProbeTextLockFlagAfterSetDropsContainsData(t *testing.T) {
	textProtocol := &zzProbeTextProtocol{NewTextParser(make([]byte, 1024), make([]byte, 1024))}
	converter := NewTextCommandConverter()
	a, _, err := converter.ConvertTextLockAndUnLockCommand(textProtocol, []string{"LOCK", "k", "FLAG", "2", "SET", "v"})
	if err != nil {
		t.Fatal(err)
	}
	b, _, err := converter.ConvertTextLockAndUnLockCommand(textProtocol, []string{"LOCK", "k", "SET", "v", "FLAG", "2"})
	if err != nil {
		t.Fatal(err)
	}
	if a.Flag != b.Flag {
		t.Fatalf("same arguments, different order: Flag 0x%02x vs 0x%02x (Data set in both: %v %v)", a.Flag, b.Flag, a.Data != nil, b.Data != nil)
	}
}
