package server

import (
	"sync"
	"testing"
	"time"

	"github.com/snower/slock/protocol"
)

// Probe (unchanged tree): a hold whose expiry is given in milliseconds (E < 3000 ms) is not restarted by a
// re-entrant re-lock nor by an update that changes Count: the entry in the millisecond queue still fires at the
// original deadline and ends the hold early.

type zzProbeEvent struct {
	result  uint8
	lrcount uint8
	at      time.Time
}

func TestZZProbeMillisecondHoldRelockAndUpdateDoNotRestartPeriod(t *testing.T) {
	testWithLockDB(t, func(db *LockDB) {
		db.aofTime = 0xff
		glock := &sync.Mutex{}
		events := make(map[[16]byte][]zzProbeEvent)
		getEvents := func(requestId [16]byte) []zzProbeEvent {
			glock.Lock()
			defer glock.Unlock()
			return append([]zzProbeEvent{}, events[requestId]...)
		}
		client := NewMemWaiterServerProtocol(db.slock)
		_ = client.SetResultCallback(func(_ *MemWaiterServerProtocol, command *protocol.LockCommand, result uint8, lcount uint16, lrcount uint8, data []byte) error {
			glock.Lock()
			events[command.RequestId] = append(events[command.RequestId], zzProbeEvent{result, lrcount, time.Now()})
			glock.Unlock()
			return nil
		})
		defer client.Close()

		newCommand := func(n byte, key byte, flag uint8, count uint16, rcount uint8) *protocol.LockCommand {
			command := &protocol.LockCommand{Command: protocol.Command{Magic: protocol.MAGIC, Version: protocol.VERSION, CommandType: protocol.COMMAND_LOCK}}
			command.RequestId = [16]byte{0xa3, n}
			command.LockId = [16]byte{0xb3, key}
			command.LockKey = [16]byte{'z', 'z', 'p', 'r', 'o', 'b', 'e', key}
			command.Flag = flag
			command.Expried = 2000
			command.ExpriedFlag = protocol.EXPRIED_FLAG_MILLISECOND_TIME | protocol.EXPRIED_FLAG_UNLIMITED_AOF_TIME
			command.Count = count
			command.Rcount = rcount
			return command
		}

		start := time.Now()
		_ = db.Lock(client, newCommand(1, 'r', 0, 0, 3), 0)                                   // key r: re-entrant hold
		_ = db.Lock(client, newCommand(2, 'u', 0, 1, 0), 0)                                   // key u: hold to be updated
		time.Sleep(1200 * time.Millisecond)
		relockAt := time.Now()
		_ = db.Lock(client, newCommand(3, 'r', 0, 0, 3), 0)                                   // re-entrant re-lock
		_ = db.Lock(client, newCommand(4, 'u', protocol.LOCK_FLAG_UPDATE_WHEN_LOCKED, 2, 0), 0) // update, Count differs
		t.Logf("relock reply %v, update reply %v", getEvents([16]byte{0xa3, 3}), getEvents([16]byte{0xa3, 4}))
		time.Sleep(3500 * time.Millisecond)

		for _, c := range []struct {
			name string
			ids  [][16]byte
		}{{"re-entrant re-lock", [][16]byte{{0xa3, 1}, {0xa3, 3}}}, {"update", [][16]byte{{0xa3, 2}, {0xa3, 4}}}} {
			for _, id := range c.ids {
				for _, ev := range getEvents(id) {
					if ev.result == protocol.RESULT_EXPRIED {
						sinceStart, sinceRestart := ev.at.Sub(start), ev.at.Sub(relockAt)
						t.Logf("%s: EXPRIED %v after grant, %v after the %s", c.name, sinceStart, sinceRestart, c.name)
						if sinceRestart < 2000*time.Millisecond {
							t.Errorf("%s: hold (E=2000ms) ended only %v after the period was restarted", c.name, sinceRestart)
						}
					}
				}
			}
		}
	})
}
