package server

import (
	"io/ioutil"
	"os"
	"path/filepath"
	"testing"
	"time"

	"github.com/jessevdk/go-flags"
	"github.com/snower/slock/protocol"
)

// C07 probe (UNCHANGED tree): a hold whose expiry is given in milliseconds (EXPRIED_FLAG_MILLISECOND_TIME, 60000 ms),
// persisted immediately, is restored with a fresh full 60 s after a restart, i.e. the outage renews the hold:
// the append record stores the full duration and GetLockCommandExpriedTime returns it unchanged for millisecond holds.
// A hold with a deadline in seconds is the control. This test FAILS on the unchanged tree.

type zzp1Leader struct {
	slock *SLock
	proto *MemWaiterServerProtocol
	last  uint8
}

func zzp1StartLeader(t *testing.T, dataDir string) *zzp1Leader {
	cfg := &ServerConfig{}
	if _, err := flags.NewParser(cfg, flags.Default).ParseArgs([]string{}); err != nil {
		t.Fatalf("parse config: %v", err)
	}
	cfg.DataDir = dataDir
	cfg.LogLevel = "ERROR"
	cfg.DBFastKeyCount = 4096
	cfg.DBConcurrent = 2
	logger, _ := InitLogger(cfg)
	slock := NewSLock(cfg, logger)
	if err := slock.initLeader(); err != nil {
		t.Fatalf("initLeader: %v", err)
	}
	leader := &zzp1Leader{slock: slock, last: 0xff}
	leader.proto = NewMemWaiterServerProtocol(slock)
	_ = leader.proto.SetResultCallback(func(_ *MemWaiterServerProtocol, _ *protocol.LockCommand, result uint8, _ uint16, _ uint8, _ []byte) error {
		leader.last = result
		return nil
	})
	return leader
}

func (self *zzp1Leader) stop() {
	_ = self.slock.aof.WaitFlushAofChannel()
	self.slock.aof.FlushWithLocked()
	self.slock.state = STATE_CLOSE
	for _, db := range self.slock.dbs {
		if db != nil {
			db.glock.Lock()
			db.status = STATE_CLOSE
			db.glock.Unlock()
			db.Close()
		}
	}
	self.slock.aof.Close()
}

func zzp1LockCommand(key [16]byte, lockId [16]byte, expried uint16, expriedFlag uint16) *protocol.LockCommand {
	command := &protocol.LockCommand{Command: protocol.Command{Magic: protocol.MAGIC, Version: protocol.VERSION, CommandType: protocol.COMMAND_LOCK}}
	command.DbId = 0
	command.LockKey = key
	command.LockId = lockId
	command.Expried = expried
	command.ExpriedFlag = expriedFlag
	return command
}

func zzp1Deadline(t *testing.T, db *LockDB, key [16]byte, lockId [16]byte, what string) int64 {
	lockManager := db.GetLockManager(&protocol.LockCommand{LockKey: key})
	if lockManager == nil || lockManager.locked != 1 || lockManager.currentLock == nil || lockManager.currentLock.command.LockId != lockId {
		t.Fatalf("%s: hold is not held", what)
	}
	return lockManager.currentLock.expriedTime
}

func TestZZProbeMillisecondHoldRenewedByOutage(t *testing.T) {
	baseDir, err := ioutil.TempDir("", "zzp1")
	if err != nil {
		t.Fatalf("tempdir: %v", err)
	}
	defer os.RemoveAll(baseDir)
	dataDir := filepath.Join(baseDir, "data")

	keyMinutes := [16]byte{'z', 'z', 'd', '2', 'm', 'i', 'n', 'u', 't', 'e', 's', 0, 0, 0, 0, 1}
	keySeconds := [16]byte{'z', 'z', 'd', '2', 's', 'e', 'c', 'o', 'n', 'd', 's', 0, 0, 0, 0, 2}
	lockIdA := [16]byte{1, 2, 3, 4, 5, 6, 7, 8, 9, 10, 11, 12, 13, 14, 15, 16}
	lockIdB := [16]byte{16, 15, 14, 13, 12, 11, 10, 9, 8, 7, 6, 5, 4, 3, 2, 1}

	leader := zzp1StartLeader(t, dataDir)
	db := leader.slock.GetOrNewDB(0)

	// 60000 ms, persisted at once
	_ = db.Lock(leader.proto, zzp1LockCommand(keyMinutes, lockIdA, 60000, protocol.EXPRIED_FLAG_MILLISECOND_TIME|protocol.EXPRIED_FLAG_ZEOR_AOF_TIME), 0)
	if leader.last != protocol.RESULT_SUCCED {
		t.Fatalf("minute lock result %d", leader.last)
	}
	// 300 seconds, persisted at once
	_ = db.Lock(leader.proto, zzp1LockCommand(keySeconds, lockIdB, 300, protocol.EXPRIED_FLAG_ZEOR_AOF_TIME), 0)
	if leader.last != protocol.RESULT_SUCCED {
		t.Fatalf("second lock result %d", leader.last)
	}
	minutesDeadline := zzp1Deadline(t, db, keyMinutes, lockIdA, "original minutes hold")
	secondsDeadline := zzp1Deadline(t, db, keySeconds, lockIdB, "original seconds hold")
	leader.stop()

	// the outage: a few seconds only, far less than one minute
	time.Sleep(3200 * time.Millisecond)

	restarted := zzp1StartLeader(t, dataDir)
	defer restarted.stop()
	db2 := restarted.slock.GetOrNewDB(0)
	restoredSecondsDeadline := zzp1Deadline(t, db2, keySeconds, lockIdB, "restored seconds hold")
	restoredMinutesDeadline := zzp1Deadline(t, db2, keyMinutes, lockIdA, "restored minutes hold")

	if diff := restoredSecondsDeadline - secondsDeadline; diff > 2 || diff < -2 {
		t.Fatalf("seconds hold: deadline moved by %d s over the restart (original %d restored %d)", diff, secondsDeadline, restoredSecondsDeadline)
	}
	// tolerance: one unit of the expiry granularity (1 ms) plus a second, rounded up
	if diff := restoredMinutesDeadline - minutesDeadline; diff > 2 || diff < -2 {
		t.Fatalf("millisecond hold: deadline moved by %d s over a restart of about 3 s, more than a millisecond plus a second (original %d restored %d)",
			diff, minutesDeadline, restoredMinutesDeadline)
	}
}
