package server

import (
	"fmt"
	"testing"
)

// Probe A (unchanged code): LockQueue.Restructuring assumes nodeIndex == tailNodeIndex.
// If PopRight has retreated the tail so that spare nodes exist above it, the trailing
// "free nodes above the new tail" loop decrements nodeIndex onto a freed slot,
// queueSize becomes 0 and a later mallocQueue allocates a zero-length node.
func TestZZProbeRestructuringAfterPopRight(t *testing.T) {
	err := func() (err error) {
		defer func() {
			if r := recover(); r != nil {
				err = fmt.Errorf("panic: %v", r)
			}
		}()
		q := NewLockQueue(1, 8, 2)
		model := make([]*Lock, 0)
		// sizes 2,4,8,16,32,64,128 -> fill up to node 6
		for i := 0; i < 2+4+8+16+32+64+1; i++ {
			l := &Lock{}
			_ = q.Push(l)
			model = append(model, l)
		}
		// retreat the tail into node 4 (spare nodes 5,6 stay allocated)
		for q.tailNodeIndex > 4 || q.tailQueueIndex > 1 {
			if q.PopRight() != model[len(model)-1] {
				return fmt.Errorf("PopRight mismatch")
			}
			model = model[:len(model)-1]
		}
		// punch holes in place: keep only the first 3 elements
		kept := model[:3]
		n := 0
		for j := int32(0); j <= q.tailNodeIndex; j++ {
			for k := int32(0); k < q.nodeQueueSizes[j]; k++ {
				if q.queues[j][k] != nil {
					if n >= 3 {
						q.queues[j][k] = nil
					}
					n++
				}
			}
		}
		model = append([]*Lock{}, kept...)
		_ = q.Restructuring()
		if int(q.Len()) != len(model) {
			return fmt.Errorf("Len after Restructuring %d model %d", q.Len(), len(model))
		}
		for i := 0; i < 200; i++ {
			l := &Lock{}
			_ = q.Push(l)
			model = append(model, l)
		}
		for len(model) > 0 {
			if q.Pop() != model[0] {
				return fmt.Errorf("Pop mismatch with %d left", len(model))
			}
			model = model[1:]
		}
		return nil
	}()
	if err != nil {
		t.Fatalf("nodeIndex/queueSize out of step after Restructuring: %v", err)
	}
}
