package server

import (
	"runtime"
	"strings"
	"sync"
	"sync/atomic"
	"testing"
	"time"

	"github.com/snower/slock/protocol"
)

// Probe for a defect of the UNCHANGED code (property C01):
// RemoveLockManager (slow key table path) tombstones the manager (refCount 0 -> 0xffffffff) BEFORE it takes
// db.mGlock, and afterwards deletes the table entry BY KEY without checking that the entry is still itself.
// A Lock request for the same key whose mGlock.Lock() is queued ahead of the remover (for instance because a
// KEYS/SCAN reader or any other user holds mGlock for a while) finds the tombstone, installs a fresh manager
// M2 in db.locks[K] and is granted on it; the remover then deletes M2's table entry.  The next request for K
// finds nothing, creates M3 and is granted too: two Count-0 holds on one key.

type zzProbeClient struct {
	sp      *MemWaiterServerProtocol
	glock   sync.Mutex
	replies map[[16]byte]uint8
}

func zzProbeNewClient(db *LockDB) *zzProbeClient {
	client := &zzProbeClient{sp: NewMemWaiterServerProtocol(db.slock), replies: make(map[[16]byte]uint8)}
	_ = client.sp.SetResultCallback(func(_ *MemWaiterServerProtocol, command *protocol.LockCommand, result uint8, lcount uint16, lrcount uint8, data []byte) error {
		client.glock.Lock()
		client.replies[command.RequestId] = result
		client.glock.Unlock()
		return nil
	})
	return client
}

func (self *zzProbeClient) reply(requestId [16]byte) (uint8, bool) {
	self.glock.Lock()
	defer self.glock.Unlock()
	r, ok := self.replies[requestId]
	return r, ok
}

func zzProbeLockCommand(key [16]byte, idByte byte, expried uint16) *protocol.LockCommand {
	command := &protocol.LockCommand{}
	command.Magic = protocol.MAGIC
	command.Version = protocol.VERSION
	command.CommandType = protocol.COMMAND_LOCK
	command.RequestId = protocol.GenRequestId()
	command.LockKey = key
	command.LockId = [16]byte{0x5a, 0x5a, 0x03, idByte, 0, 0, 0, 0, 0, 0, 0, 0, 0, 0, 0, idByte}
	command.Expried = expried
	command.ExpriedFlag = protocol.EXPRIED_FLAG_UNLIMITED_AOF_TIME
	return command
}

func zzProbeWaitStack(t *testing.T, what string, parts ...string) {
	buf := make([]byte, 1<<20)
	deadline := time.Now().Add(20 * time.Second)
	for time.Now().Before(deadline) {
		n := runtime.Stack(buf, true)
		for _, g := range strings.Split(string(buf[:n]), "\n\n") {
			all := true
			for _, part := range parts {
				if !strings.Contains(g, part) {
					all = false
					break
				}
			}
			if all {
				time.Sleep(50 * time.Millisecond)
				return
			}
		}
		time.Sleep(10 * time.Millisecond)
	}
	t.Fatalf("setup: %s never happened", what)
}

func TestZZProbeSlowTableRemoveDeletesNewerManager(t *testing.T) {
	testWithLockDB(t, func(db *LockDB) {
		clientA, clientB, clientC := zzProbeNewClient(db), zzProbeNewClient(db), zzProbeNewClient(db)
		defer clientA.sp.Close()
		defer clientB.sp.Close()
		defer clientC.sp.Close()

		slot := uint32(0x00035a5a) % db.fastKeyCount
		word := func(v uint32) [16]byte {
			return [16]byte{byte(v), byte(v >> 8), byte(v >> 16), byte(v >> 24), 0, 0, 0, 0, 0, 0, 0, 0, 0, 0, 0, 0}
		}
		otherKey, key := word(slot), word(slot+db.fastKeyCount)

		// another key owns the fast slot, so K lives in the slow key table db.locks
		otherCommand := zzProbeLockCommand(otherKey, 0x0f, 300)
		_ = db.Lock(clientA.sp, otherCommand, 1)
		if r, ok := clientA.reply(otherCommand.RequestId); !ok || r != protocol.RESULT_SUCCED {
			t.Fatalf("setup: fast slot owner not granted")
		}
		commandA := zzProbeLockCommand(key, 0x0a, 1)
		_ = db.Lock(clientA.sp, commandA, 1)
		if r, ok := clientA.reply(commandA.RequestId); !ok || r != protocol.RESULT_SUCCED {
			t.Fatalf("setup: A not granted")
		}
		db.mGlock.RLock()
		lockManager := db.locks[key]
		db.mGlock.RUnlock()
		if lockManager == nil {
			t.Fatalf("setup: K is not in the slow key table")
		}

		// somebody (think of a KEYS / SCAN reader) holds the key table lock for a while
		db.mGlock.Lock()
		tableLocked := true
		defer func() {
			if tableLocked {
				db.mGlock.Unlock()
			}
		}()

		// B asks for K (Count 0): queues on the table lock first
		commandB := zzProbeLockCommand(key, 0x0b, 300)
		requestIdB := commandB.RequestId
		doneB := make(chan error, 1)
		go func() {
			doneB <- db.Lock(clientB.sp, commandB, 1)
		}()
		zzProbeWaitStack(t, "B queued on the key table lock", "GetOrNewLockManager", "(*RWMutex).Lock")

		// A's hold expires: the sweeper tombstones K's manager and queues on the table lock behind B
		deadline := time.Now().Add(20 * time.Second)
		for atomic.LoadUint32(&lockManager.refCount) != 0xffffffff {
			if time.Now().After(deadline) {
				t.Fatalf("setup: K's manager was never tombstoned")
			}
			time.Sleep(10 * time.Millisecond)
		}
		zzProbeWaitStack(t, "remover queued on the key table lock", "RemoveLockManager", "(*RWMutex).Lock")

		db.mGlock.Unlock()
		tableLocked = false

		select {
		case <-doneB:
		case <-time.After(20 * time.Second):
			t.Fatalf("B never returned")
		}
		resultB, ok := clientB.reply(requestIdB)
		if !ok || resultB != protocol.RESULT_SUCCED {
			t.Fatalf("setup: B not granted on the free key (%v %d)", ok, resultB)
		}
		// let the remover finish
		time.Sleep(300 * time.Millisecond)

		// C asks for K (Count 0, no wait) while B's hold (300 s) is outstanding
		commandC := zzProbeLockCommand(key, 0x0c, 300)
		_ = db.Lock(clientC.sp, commandC, 1)
		resultC, ok := clientC.reply(commandC.RequestId)
		if !ok {
			t.Fatalf("C got no reply")
		}
		if resultC == protocol.RESULT_SUCCED {
			t.Errorf("C01 violated by the unchanged code: B and C both hold key K with Count 0")
		}
	})
}
