package server

import (
	"fmt"
	"os"
	"path/filepath"
	"testing"
	"time"

	"github.com/jessevdk/go-flags"
	"github.com/snower/slock/protocol"
)

// Probes of the UNCHANGED tree (expected to FAIL there: they document genuine defects).

func zzxStart(t *testing.T, dir string) (*SLock, error) {
	cfg := &ServerConfig{}
	if _, err := flags.NewParser(cfg, flags.Default).ParseArgs([]string{}); err != nil {
		t.Fatalf("config: %v", err)
	}
	cfg.DataDir = dir
	cfg.DBConcurrent = 1
	cfg.LogLevel = "ERROR"
	logger, _ := InitLogger(cfg)
	s := NewSLock(cfg, logger)
	return s, s.initLeader()
}

func zzxKey(i int) [16]byte {
	k := [16]byte{}
	copy(k[:], fmt.Sprintf("zzx-%08d", i))
	return k
}

func zzxLock(t *testing.T, s *SLock, i int, data []byte) {
	db := s.GetOrNewDB(0)
	sp := NewMemWaiterServerProtocol(s)
	results := make(chan uint8, 4)
	_ = sp.SetResultCallback(func(_ *MemWaiterServerProtocol, _ *protocol.LockCommand, result uint8, _ uint16, _ uint8, _ []byte) error {
		results <- result
		return nil
	})
	cmd := sp.GetLockCommand()
	cmd.CommandType = protocol.COMMAND_LOCK
	cmd.DbId = 0
	cmd.LockKey = zzxKey(i)
	cmd.LockId = zzxKey(i + 100000)
	cmd.RequestId = zzxKey(i + 200000)
	cmd.Timeout = 0
	cmd.Expried = 3600
	cmd.ExpriedFlag = protocol.EXPRIED_FLAG_ZEOR_AOF_TIME
	cmd.Count = 0
	if data != nil {
		cmd.Flag |= protocol.LOCK_FLAG_CONTAINS_DATA
		cmd.Data = protocol.NewLockCommandDataSetData(data)
	}
	if err := db.Lock(sp, cmd, 0); err != nil {
		t.Fatalf("lock %d: %v", i, err)
	}
	select {
	case r := <-results:
		if r != protocol.RESULT_SUCCED {
			t.Fatalf("lock %d result %d", i, r)
		}
	case <-time.After(5 * time.Second):
		t.Fatalf("lock %d: no result", i)
	}
}

func zzxHeld(s *SLock, i int) bool {
	db := s.GetDB(0)
	if db == nil {
		return false
	}
	cmd := &protocol.LockCommand{}
	cmd.LockKey = zzxKey(i)
	m := db.GetLockManager(cmd)
	return m != nil && m.locked > 0
}

func zzxValue(s *SLock, i int) string {
	cmd := &protocol.LockCommand{}
	cmd.LockKey = zzxKey(i)
	db := s.GetDB(0)
	if db == nil {
		return "<no db>"
	}
	m := db.GetLockManager(cmd)
	if m == nil || m.currentData == nil || m.currentData.data == nil {
		return "<none>"
	}
	return string(m.currentData.data[m.currentData.GetValueOffset():])
}

// Probe A: a follower start (Aof.Init, used by SLock.initFollower) on a log whose last
// record is torn fails with "Lock Len error": ReadTail reads the last 64 bytes of the
// file whatever its length modulo 64.
func TestZZProbeFollowerInitOnTornTail(t *testing.T) {
	full, _ := os.MkdirTemp("", "zzxfull")
	defer os.RemoveAll(full)
	s0, err := zzxStart(t, full)
	if err != nil {
		t.Fatal(err)
	}
	zzxLock(t, s0, 1, nil)
	zzxLock(t, s0, 2, nil)
	zzxLock(t, s0, 3, nil)
	_ = s0.aof.WaitFlushAofChannel()
	s0.aof.FlushWithLocked()
	s0.Close()
	log, _ := os.ReadFile(filepath.Join(full, "append.aof.1"))

	dir, _ := os.MkdirTemp("", "zzxcut")
	defer os.RemoveAll(dir)
	_ = os.WriteFile(filepath.Join(dir, "append.aof.1"), log[:12+2*64+30], 0644)
	_ = os.WriteFile(filepath.Join(dir, "append.aof.1.dat"), nil, 0644)

	cfg := &ServerConfig{}
	_, _ = flags.NewParser(cfg, flags.Default).ParseArgs([]string{})
	cfg.DataDir = dir
	cfg.DBConcurrent = 1
	cfg.LogLevel = "ERROR"
	logger, _ := InitLogger(cfg)
	s := NewSLock(cfg, logger)
	defer s.Close()
	if _, err := s.aof.Init(); err != nil {
		t.Fatalf("follower-side Aof.Init on a torn tail failed: %v", err)
	}
}

// Probe B: crash between the record write and the value write of a flush (record of
// key 2 persisted, its value not). The first restart recovers the prefix {1}; the append
// file is kept as it is, so the value written by the next workload (key 3) is attributed
// to the dangling record of key 2 by the second restart, and key 3 is lost.
func TestZZProbeDanglingRecordThenWorkload(t *testing.T) {
	dir, _ := os.MkdirTemp("", "zzxdang")
	defer os.RemoveAll(dir)
	s0, err := zzxStart(t, dir)
	if err != nil {
		t.Fatal(err)
	}
	zzxLock(t, s0, 1, nil)
	zzxLock(t, s0, 2, []byte("value-2"))
	_ = s0.aof.WaitFlushAofChannel()
	s0.aof.FlushWithLocked()
	s0.Close()
	// the crash: the value file lost the (only) value
	if err := os.Truncate(filepath.Join(dir, "append.aof.1.dat"), 0); err != nil {
		t.Fatal(err)
	}

	s1, err := zzxStart(t, dir)
	if err != nil {
		t.Fatalf("first restart: %v", err)
	}
	if !zzxHeld(s1, 1) || zzxHeld(s1, 2) {
		s1.Close()
		t.Fatalf("first restart is not the prefix {1}: 1=%v 2=%v", zzxHeld(s1, 1), zzxHeld(s1, 2))
	}
	zzxLock(t, s1, 3, []byte("value-3"))
	_ = s1.aof.WaitFlushAofChannel()
	s1.aof.FlushWithLocked()
	s1.Close()

	s2, err := zzxStart(t, dir)
	if err != nil {
		t.Fatalf("second restart: %v", err)
	}
	defer s2.Close()
	if zzxHeld(s2, 2) || !zzxHeld(s2, 3) || zzxValue(s2, 3) != "value-3" {
		t.Fatalf("second restart: key2 held=%v value=%q, key3 held=%v value=%q (expected key 2 absent, key 3 = value-3)",
			zzxHeld(s2, 2), zzxValue(s2, 2), zzxHeld(s2, 3), zzxValue(s2, 3))
	}
}

var _ = fmt.Sprintf
var _ = time.Second
