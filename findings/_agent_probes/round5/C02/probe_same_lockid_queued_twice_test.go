package server

import (
	"testing"

	"github.com/snower/slock/protocol"
)

// Probe (unchanged code): the same LockId queued twice behind another holder is woken
// twice when the holder leaves and Count admits two holders: the LockId then owns two
// separate holds of depth 1 although it asked with Rcount=0 (no re-entry allowed).
func TestZZProbeSameLockIdQueuedTwiceWokenTwice(t *testing.T) {
	testWithLockDB(t, func(db *LockDB) {
		type reply struct {
			lockId  [16]byte
			result  uint8
			lcount  uint16
			lrcount uint8
		}
		replies := make([]reply, 0)
		sp := NewMemWaiterServerProtocol(db.slock)
		_ = sp.SetResultCallback(func(_ *MemWaiterServerProtocol, command *protocol.LockCommand, result uint8, lcount uint16, lrcount uint8, _ []byte) error {
			replies = append(replies, reply{command.LockId, result, lcount, lrcount})
			return nil
		})
		key := [16]byte{'z', 'z', 'p', 'r', 'o', 'b', 'e'}
		idA, idX := [16]byte{0xaa, 1}, [16]byte{0xbb, 2}
		newCommand := func(commandType uint8, lockId [16]byte, count uint16, timeout uint16) *protocol.LockCommand {
			return &protocol.LockCommand{
				Command: protocol.Command{Magic: protocol.MAGIC, Version: protocol.VERSION, CommandType: commandType, RequestId: protocol.GenRequestId()},
				DbId:    0, LockId: lockId, LockKey: key, Timeout: timeout, Expried: 600,
				ExpriedFlag: protocol.EXPRIED_FLAG_UNLIMITED_AOF_TIME, Count: count, Rcount: 0,
			}
		}

		_ = db.Lock(sp, newCommand(protocol.COMMAND_LOCK, idA, 0, 0), 1)
		if len(replies) != 1 || replies[0].result != protocol.RESULT_SUCCED {
			t.Fatalf("holder A not locked %v", replies)
		}
		_ = db.Lock(sp, newCommand(protocol.COMMAND_LOCK, idX, 1, 30), 1)
		_ = db.Lock(sp, newCommand(protocol.COMMAND_LOCK, idX, 1, 30), 1)
		if len(replies) != 1 {
			t.Fatalf("requests of X answered while A holds %v", replies)
		}
		_ = db.UnLock(sp, newCommand(protocol.COMMAND_UNLOCK, idA, 0, 0), 1)

		succed := 0
		for _, r := range replies[1:] {
			if r.lockId == idX && r.result == protocol.RESULT_SUCCED {
				succed++
			}
		}
		lockManager := db.GetLockManager(newCommand(protocol.COMMAND_LOCK, idX, 0, 0))
		holds := 0
		if lockManager != nil {
			if lockManager.currentLock != nil && lockManager.currentLock.command.LockId == idX {
				holds++
			}
			if lockManager.locks != nil {
				for _, nodes := range lockManager.locks.IterNodes() {
					for _, lock := range nodes {
						if lock != nil && lock.locked > 0 && lock.command.LockId == idX {
							holds++
						}
					}
				}
			}
		}
		t.Logf("replies %v, separate holds of X %d, key locked %d", replies, holds, lockManager.locked)
		if succed > 1 || holds > 1 {
			t.Errorf("LockId X asked with Rcount=0 yet was granted %d times and owns %d separate holds", succed, holds)
		}
	})
}
