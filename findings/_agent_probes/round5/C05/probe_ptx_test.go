package protocol

import "testing"

// Probe of the UNCHANGED tree (not a seeded change): the text-protocol option
// "PTX <milliseconds>" (wait timeout in milliseconds, used by SET/LPUSH/... style
// commands through ConvertArgs2Flag) is converted correctly only up to 3000 ms
// and above 65535000 ms.  In between the millisecond figure is stored as the
// Timeout in SECONDS (truncated to 16 bits), so "PTX 5000" queues a 5000 s wait
// and "PTX 70000" a 4464 s wait, instead of 5 s / 70 s.
func TestZZProbePTXBetween3sAnd65535sIsTakenAsSeconds(t *testing.T) {
	converter := NewTextCommandConverter()
	for _, ms := range []int64{3001, 5000, 70000} {
		command := &LockCommand{}
		if err := converter.ConvertArgs2Flag(command, []string{"PTX", itoaProbe(ms)}); err != nil {
			t.Fatalf("PTX %d: %v", ms, err)
		}
		var effectiveMs int64
		switch {
		case command.TimeoutFlag&TIMEOUT_FLAG_MILLISECOND_TIME != 0:
			effectiveMs = int64(command.Timeout)
		case command.TimeoutFlag&TIMEOUT_FLAG_MINUTE_TIME != 0:
			effectiveMs = int64(command.Timeout) * 60000
		default:
			effectiveMs = int64(command.Timeout) * 1000
		}
		if effectiveMs < ms || effectiveMs > ms+1000 {
			t.Errorf("PTX %d ms -> Timeout=%d TimeoutFlag=%#x, i.e. an effective wait of %d ms", ms, command.Timeout, command.TimeoutFlag, effectiveMs)
		}
	}
}

func itoaProbe(v int64) string {
	digits := []byte{}
	for v > 0 {
		digits = append([]byte{byte('0' + v%10)}, digits...)
		v /= 10
	}
	return string(digits)
}
