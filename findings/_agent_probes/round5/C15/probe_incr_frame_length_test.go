package server

import (
	"testing"

	"github.com/snower/slock/protocol"
)

// Probe (unchanged tree): an INCR whose payload is not exactly 8 bytes, applied to a value that has a
// property header, leaves a value frame whose 4-byte length prefix is zero.
func TestZZProbeIncrShortPayloadOnPropertyValueFrameLength(t *testing.T) {
	testWithLockDB(t, func(db *LockDB) {
		for i := range db.aofChannels {
			db.aofChannels[i] = NewAofChannel(db.slock.GetAof(), db, uint16(i), db.managerGlocks[i])
		}
		var last []byte
		serverProtocol := NewMemWaiterServerProtocol(db.slock)
		_ = serverProtocol.SetResultCallback(func(_ *MemWaiterServerProtocol, _ *protocol.LockCommand, _ uint8, _ uint16, _ uint8, data []byte) error {
			last = data
			return nil
		})
		lockKey, lockId := protocol.GenLockId(), protocol.GenLockId()
		newCommand := func(flag uint8, data *protocol.LockCommandData) *protocol.LockCommand {
			return &protocol.LockCommand{Command: protocol.Command{Magic: protocol.MAGIC, Version: protocol.VERSION, CommandType: protocol.COMMAND_LOCK, RequestId: protocol.GenRequestId()},
				Flag: flag | protocol.LOCK_FLAG_CONTAINS_DATA, DbId: 0, LockId: lockId, LockKey: lockKey, Timeout: 5, Expried: 500, Data: data}
		}
		props := []*protocol.LockCommandDataProperty{protocol.NewLockCommandDataProperty(protocol.LOCK_DATA_PROPERTY_CODE_KEY, []byte("k"))}
		_ = db.Lock(serverProtocol, newCommand(0, protocol.NewLockCommandDataIncrDataWithProperty(7, props)), 0)
		_ = db.Lock(serverProtocol, newCommand(protocol.LOCK_FLAG_UPDATE_WHEN_LOCKED, protocol.NewLockCommandDataFromBytes([]byte{5}, protocol.LOCK_DATA_STAGE_CURRENT, protocol.LOCK_DATA_COMMAND_TYPE_INCR, protocol.LOCK_DATA_FLAG_VALUE_TYPE_NUMBER, nil)), 0)
		_ = last
		lockManager := db.GetLockManager(newCommand(0, nil))
		data := lockManager.GetLockData()
		if data == nil {
			t.Fatalf("no value")
		}
		t.Logf("value frame % x  incr=%d", data, lockManager.currentData.GetIncrValue())
		prefix := int(uint32(data[0]) | uint32(data[1])<<8 | uint32(data[2])<<16 | uint32(data[3])<<24)
		if prefix != len(data)-4 {
			t.Errorf("length prefix of the stored value frame is %d, frame body is %d bytes", prefix, len(data)-4)
		}
	})
}
