package server

import (
	"net"
	"os"
	"testing"

	"github.com/jessevdk/go-flags"
	"github.com/snower/slock/client"
	"github.com/snower/slock/protocol"
)

// PROBE (unchanged code): an acceptor does not persist the number it committed.
// commandHandleCommitCommand only updates voter.commitId / proposalHost in memory;
// meta.pb is rewritten by voteSucced (on the winning candidate) and by the
// announcement handler, never by the commit handler. An acceptor that is restarted
// between the commit and the announcement therefore comes back with the old
// commitId, proposalId = old commitId and no outstanding commit, and lets a second,
// overlapping candidate gather a proposal and a commit majority for the same number.
//
//   M saved its metadata earlier (commitId 0)
//   A: vote, proposal #1 (A, M), commit #1 (A, M)      -> A has a commit majority
//   M is restarted from meta.pb (no announcement from A has been sent yet)
//   B: vote, proposal #1 (B, M'), commit #1 (B, M')    -> B has a commit majority too

type zzProbeNode struct {
	slock   *SLock
	manager *ArbiterManager
}

func zzProbeNewSLock(t *testing.T, dataDir string) *SLock {
	serverConfig := &ServerConfig{}
	parse := flags.NewParser(serverConfig, flags.Default)
	if _, err := parse.ParseArgs([]string{}); err != nil {
		t.Fatalf("parse config fail %v", err)
	}
	serverConfig.DataDir = dataDir
	logger, _ := InitLogger(serverConfig)
	slock := NewSLock(serverConfig, logger)
	slock.state = STATE_FOLLOWER
	return slock
}

func zzProbeNewNode(t *testing.T, own string, hosts []string, arbiters map[string]uint32, dataDir string) *zzProbeNode {
	serverConfig := &ServerConfig{}
	serverConfig.DataDir = dataDir
	parse := flags.NewParser(serverConfig, flags.Default)
	if _, err := parse.ParseArgs([]string{}); err != nil {
		t.Fatalf("parse config fail %v", err)
	}
	serverConfig.DataDir = dataDir
	logger, _ := InitLogger(serverConfig)
	slock := NewSLock(serverConfig, logger)
	slock.state = STATE_FOLLOWER
	manager := NewArbiterManager(slock, "zzdemo")
	slock.arbiterManager = manager
	manager.gid = "zzdemo-gid"
	for _, host := range hosts {
		member := NewArbiterMember(manager, host, 1, arbiters[host])
		member.status = ARBITER_MEMBER_STATUS_OFFLINE
		if host == own {
			member.isSelf = true
			member.status = ARBITER_MEMBER_STATUS_ONLINE
			manager.ownMember = member
		}
		manager.members = append(manager.members, member)
	}
	return &zzProbeNode{slock, manager}
}

func (self *zzProbeNode) member(host string) *ArbiterMember {
	for _, member := range self.manager.members {
		if member.host == host {
			return member
		}
	}
	return nil
}

// connect wires "from" -> "to": the member entry of "to" inside "from" gets a
// working ArbiterClient, and "to" serves the requests with its real call handlers.
func zzProbeConnect(t *testing.T, from *zzProbeNode, to *zzProbeNode) func() {
	clientConn, serverConn := net.Pipe()

	serverProtocol := NewBinaryServerProtocol(to.slock, NewStream(serverConn))
	fromMemberInTo := to.member(from.manager.ownMember.host)
	fromMemberInTo.status = ARBITER_MEMBER_STATUS_ONLINE
	fromMemberInTo.server = NewArbiterServer(serverProtocol)
	go func() {
		for {
			command, err := serverProtocol.Read()
			if err != nil {
				return
			}
			callCommand, ok := command.(*protocol.CallCommand)
			if !ok {
				return
			}
			handler, err := serverProtocol.FindCallMethod(callCommand.MethodName)
			if err != nil {
				return
			}
			result, _ := handler(serverProtocol, callCommand)
			if result == nil {
				return
			}
			if err = serverProtocol.Write(result); err != nil {
				return
			}
		}
	}()

	toMemberInFrom := from.member(to.manager.ownMember.host)
	arbiterClient := NewArbiterClient(toMemberInFrom)
	arbiterClient.stream = client.NewStream(clientConn)
	arbiterClient.protocol = client.NewBinaryClientProtocol(arbiterClient.stream)
	rchannel := arbiterClient.rchannel
	go func() {
		for {
			command, err := arbiterClient.protocol.Read()
			if err != nil {
				rchannel <- nil
				return
			}
			rchannel <- command
		}
	}()
	toMemberInFrom.client = arbiterClient
	toMemberInFrom.status = ARBITER_MEMBER_STATUS_ONLINE

	return func() {
		_ = clientConn.Close()
		_ = serverConn.Close()
	}
}

func TestZZProbeAcceptorRestartAfterCommitAllowsSecondWinner(t *testing.T) {
	dataDir, err := os.MkdirTemp("", "zzprobe")
	if err != nil {
		t.Fatalf("temp dir fail %v", err)
	}
	defer os.RemoveAll(dataDir)

	hosts := []string{"127.0.0.1:15021", "127.0.0.1:15022", "127.0.0.1:15023"}
	arbiters := map[string]uint32{hosts[2]: 1}
	a := zzProbeNewNode(t, hosts[0], hosts, arbiters, dataDir)
	b := zzProbeNewNode(t, hosts[1], hosts, arbiters, dataDir)
	m := zzProbeNewNode(t, hosts[2], hosts, arbiters, dataDir)
	if err = m.manager.store.Save(m.manager); err != nil {
		t.Fatalf("M save meta fail %v", err)
	}
	closeA := zzProbeConnect(t, a, m)
	defer closeA()

	if err = a.manager.voter.DoVote(); err != nil {
		t.Fatalf("A vote fail %v", err)
	}
	if err = a.manager.voter.DoProposal(); err != nil {
		t.Fatalf("A proposal fail %v", err)
	}
	if err = a.manager.voter.DoCommit(); err != nil {
		t.Fatalf("A commit fail %v", err)
	}
	if m.manager.voter.commitId != 1 || m.manager.voter.proposalHost != hosts[0] {
		t.Fatalf("M state commitId=%d proposalHost=%s", m.manager.voter.commitId, m.manager.voter.proposalHost)
	}

	// M restarts from its saved metadata
	closeA()
	slock2 := zzProbeNewSLock(t, dataDir)
	manager2 := NewArbiterManager(slock2, "zzdemo")
	slock2.arbiterManager = manager2
	if err = manager2.Load(); err != nil {
		t.Fatalf("M restart load fail %v", err)
	}
	if manager2.ownMember == nil || manager2.ownMember.host != hosts[2] {
		t.Fatalf("M restart own member error")
	}
	manager2.ownMember.status = ARBITER_MEMBER_STATUS_ONLINE
	m2 := &zzProbeNode{slock2, manager2}
	t.Logf("M before restart: proposalId=%d commitId=%d proposalHost=%s; after restart: proposalId=%d commitId=%d proposalHost=%q",
		m.manager.voter.proposalId, m.manager.voter.commitId, m.manager.voter.proposalHost,
		manager2.voter.proposalId, manager2.voter.commitId, manager2.voter.proposalHost)
	if manager2.voter.commitId < m.manager.voter.commitId {
		t.Errorf("committed number regressed over the restart: %d -> %d", m.manager.voter.commitId, manager2.voter.commitId)
	}

	closeB := zzProbeConnect(t, b, m2)
	defer closeB()
	if err = b.manager.voter.DoVote(); err != nil {
		t.Fatalf("B vote fail %v", err)
	}
	errProposal := b.manager.voter.DoProposal()
	var errCommit error
	if errProposal == nil {
		errCommit = b.manager.voter.DoCommit()
	}
	t.Logf("B proposal #%d err=%v commit err=%v", b.manager.voter.proposalIndex, errProposal, errCommit)
	if errProposal == nil && errCommit == nil {
		t.Errorf("second winner: A committed #%d for %s on {A, M}; after M restarted B committed #%d for %s on {B, M}",
			a.manager.voter.commitId, a.manager.voter.proposalHost, b.manager.voter.commitId, b.manager.voter.proposalHost)
	}
}
