package server

import (
	"fmt"
	"io"
	"os"
	"path/filepath"
	"testing"
	"time"

	"github.com/jessevdk/go-flags"
	"github.com/snower/slock/protocol"
)

func zzpNew(t *testing.T, dir string) *SLock {
	cfg := &ServerConfig{}
	if _, err := flags.NewParser(cfg, flags.Default).ParseArgs([]string{}); err != nil {
		t.Fatal(err)
	}
	cfg.DataDir = dir
	cfg.LogLevel = "ERROR"
	logger, _ := InitLogger(cfg)
	s := NewSLock(cfg, logger)
	if err := s.initLeader(); err != nil {
		t.Fatal(err)
	}
	return s
}

func zzpKey(b byte) [16]byte { k := [16]byte{}; k[0], k[15] = b, b; return k }

type zzpCmd struct {
	ctype   uint8
	key, id byte
	flag    uint8
	tflag   uint16
	expried uint16
	eflag   uint16
	count   uint16
	rcount  uint8
	data    []byte
}

func zzpDo(s *SLock, sp *MemWaiterServerProtocol, x zzpCmd) {
	db := s.GetOrNewDB(0)
	c := sp.GetLockCommand()
	c.CommandType = x.ctype
	c.DbId = 0
	c.LockKey = zzpKey(x.key)
	c.LockId = zzpKey(x.id)
	c.RequestId = zzpKey(x.id)
	c.Flag = x.flag
	c.Timeout, c.TimeoutFlag = 0, x.tflag
	c.Expried, c.ExpriedFlag = x.expried, x.eflag
	c.Count, c.Rcount = x.count, x.rcount
	c.Data = nil
	if x.data != nil {
		c.Flag |= protocol.LOCK_FLAG_CONTAINS_DATA
		c.Data = protocol.NewLockCommandDataSetData(x.data)
	}
	if x.ctype == protocol.COMMAND_LOCK {
		_ = db.Lock(sp, c, 0)
	} else {
		_ = db.UnLock(sp, c, 0)
	}
}

func zzpSettle(s *SLock) {
	_ = s.aof.WaitFlushAofChannel()
	time.Sleep(200 * time.Millisecond)
	_ = s.aof.WaitRewriteAofFiles()
}

func zzpCopy(t *testing.T, from, to string) {
	_ = os.MkdirAll(to, 0755)
	es, _ := os.ReadDir(from)
	for _, e := range es {
		in, _ := os.Open(filepath.Join(from, e.Name()))
		out, _ := os.Create(filepath.Join(to, e.Name()))
		_, _ = io.Copy(out, in)
		in.Close()
		out.Close()
	}
}

func zzpSnap(s *SLock, keys []byte) string {
	db := s.GetOrNewDB(0)
	r := ""
	for _, k := range keys {
		m := db.GetLockManager(&protocol.LockCommand{LockKey: zzpKey(k)})
		if m == nil {
			r += fmt.Sprintf("[k%d none]", k)
			continue
		}
		m.glock.Lock()
		var d []byte
		if m.currentData != nil {
			d = m.currentData.GetData()
		}
		exp := int64(-1)
		cnt, rc := uint16(0), uint8(0)
		if m.currentLock != nil {
			exp = (m.currentLock.expriedTime - db.currentTime + 5) / 10
			cnt, rc = m.currentLock.command.Count, m.currentLock.command.Rcount
		}
		r += fmt.Sprintf("[k%d locked=%d exp~%d cnt=%d rc=%d data=%q]", k, m.locked, exp, cnt, rc, d)
		m.glock.Unlock()
	}
	return r
}

func zzpRun(t *testing.T, name string, keys []byte, scenario func(s *SLock, sp *MemWaiterServerProtocol)) {
	dir, _ := os.MkdirTemp("", "zzp")
	defer os.RemoveAll(dir)
	live := filepath.Join(dir, "live")
	s := zzpNew(t, live)
	sp := NewMemWaiterServerProtocol(s)
	_ = sp.SetResultCallback(func(_ *MemWaiterServerProtocol, c *protocol.LockCommand, result uint8, _ uint16, _ uint8, _ []byte) error {
		t.Logf("%s: cmd %d key %d id %x result %d", name, c.CommandType, c.LockKey[0], c.LockId[0], result)
		return nil
	})
	scenario(s, sp)
	zzpSettle(s)
	mem := zzpSnap(s, keys)
	s.aof.FlushWithLocked()
	zzpCopy(t, live, filepath.Join(dir, "pre"))
	s.aof.aofGlock.Lock()
	_ = s.aof.RewriteAofFile(true)
	s.aof.aofGlock.Unlock()
	zzpSettle(s)
	zzpCopy(t, live, filepath.Join(dir, "post"))
	s.Close()
	a := zzpNew(t, filepath.Join(dir, "pre"))
	zzpSettle(a)
	sa := zzpSnap(a, keys)
	a.Close()
	b := zzpNew(t, filepath.Join(dir, "post"))
	zzpSettle(b)
	sb := zzpSnap(b, keys)
	b.Close()
	t.Logf("%s\n  memory: %s\n  pre   : %s\n  post  : %s", name, mem, sa, sb)
	if sa != sb {
		t.Errorf("%s: recovery differs before/after compaction", name)
	}
}

func TestZZProbePriorityUpdate(t *testing.T) {
	Z := uint16(protocol.EXPRIED_FLAG_ZEOR_AOF_TIME)
	zzpRun(t, "rcount-is-priority update", []byte{1}, func(s *SLock, sp *MemWaiterServerProtocol) {
		zzpDo(s, sp, zzpCmd{ctype: protocol.COMMAND_LOCK, key: 1, id: 0x41, tflag: protocol.TIMEOUT_FLAG_RCOUNT_IS_PRIORITY, expried: 300, eflag: Z})
		zzpSettle(s)
		zzpDo(s, sp, zzpCmd{ctype: protocol.COMMAND_LOCK, key: 1, id: 0x41, flag: protocol.LOCK_FLAG_UPDATE_WHEN_LOCKED, tflag: protocol.TIMEOUT_FLAG_RCOUNT_IS_PRIORITY, expried: 3000, eflag: Z})
	})
}

func TestZZProbeReleasedHolderValue(t *testing.T) {
	Z := uint16(protocol.EXPRIED_FLAG_ZEOR_AOF_TIME)
	zzpRun(t, "value of released holder", []byte{2}, func(s *SLock, sp *MemWaiterServerProtocol) {
		zzpDo(s, sp, zzpCmd{ctype: protocol.COMMAND_LOCK, key: 2, id: 0x51, expried: 3000, eflag: Z, count: 1, data: []byte("v1")})
		zzpSettle(s)
		zzpDo(s, sp, zzpCmd{ctype: protocol.COMMAND_LOCK, key: 2, id: 0x52, expried: 3000, eflag: Z, count: 1, data: []byte("v2")})
		zzpSettle(s)
		zzpDo(s, sp, zzpCmd{ctype: protocol.COMMAND_UNLOCK, key: 2, id: 0x52, count: 1})
	})
}

func TestZZProbePlainUpdateControl(t *testing.T) {
	Z := uint16(protocol.EXPRIED_FLAG_ZEOR_AOF_TIME)
	zzpRun(t, "plain update (control)", []byte{3}, func(s *SLock, sp *MemWaiterServerProtocol) {
		zzpDo(s, sp, zzpCmd{ctype: protocol.COMMAND_LOCK, key: 3, id: 0x61, expried: 300, eflag: Z})
		zzpSettle(s)
		zzpDo(s, sp, zzpCmd{ctype: protocol.COMMAND_LOCK, key: 3, id: 0x61, flag: protocol.LOCK_FLAG_UPDATE_WHEN_LOCKED, expried: 3000, eflag: Z})
	})
}
