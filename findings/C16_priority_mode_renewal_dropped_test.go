package server

import (
	"io"
	"os"
	"path/filepath"
	"testing"
	"time"

	"github.com/jessevdk/go-flags"
	"github.com/snower/slock/protocol"
)

// Demonstration for a repaired defect of C16: "(*server.Aof).loadRewriteAofFiles$1/site/HasLock#1:C16.rewrite.priority-mode"
// (first reported by a sub-agent of seeding round 6; the test is its probe). A hold taken with TIMEOUT_FLAG_RCOUNT_IS_PRIORITY and then
// renewed with LOCK_FLAG_UPDATE_WHEN_LOCKED lost the renewal at every compaction: loadRewriteAofFiles asked the engine about the
// record's terms without the priority mode (it never copied AOF_FLAG_RCOUNT_IS_PRIORITY into the command's TimeoutFlag), the
// engine's "same terms" test compares that bit with the live hold, so the renewal's record was judged stale and dropped; a restart
// from the compacted files recovered the deadline from before the renewal.
// Run on a scratch copy:  tools/run_in_scratch.sh findings/C16_priority_mode_renewal_dropped_test.go TestFindingC16PriorityMode

func findC16PNewLeader(t *testing.T, dataDir string) *SLock {
	cfg := &ServerConfig{}
	parse := flags.NewParser(cfg, flags.Default)
	if _, err := parse.ParseArgs([]string{}); err != nil {
		t.Fatalf("parse config: %v", err)
	}
	cfg.DataDir = dataDir
	cfg.LogLevel = "ERROR"
	logger, _ := InitLogger(cfg)
	slock := NewSLock(cfg, logger)
	if err := slock.initLeader(); err != nil {
		t.Fatalf("initLeader: %v", err)
	}
	return slock
}

func findC16PCopyDir(t *testing.T, from string, to string) {
	entries, err := os.ReadDir(from)
	if err != nil {
		t.Fatalf("readdir: %v", err)
	}
	for _, entry := range entries {
		if entry.IsDir() {
			continue
		}
		src, err := os.Open(filepath.Join(from, entry.Name()))
		if err != nil {
			t.Fatalf("open: %v", err)
		}
		dst, err := os.Create(filepath.Join(to, entry.Name()))
		if err != nil {
			t.Fatalf("create: %v", err)
		}
		if _, err = io.Copy(dst, src); err != nil {
			t.Fatalf("copy: %v", err)
		}
		_ = src.Close()
		_ = dst.Close()
	}
}

func findC16PWaitRewrite(slock *SLock) {
	// let a start-up compaction goroutine (if any) begin and finish
	time.Sleep(300 * time.Millisecond)
	_ = slock.aof.WaitRewriteAofFiles()
}

// findC16PRecover starts a fresh instance on dataDir and returns the recovered
// deadline and minute count of the hold (0, 0 when it is not held).
func findC16PRecover(t *testing.T, dataDir string, key [16]byte, lockId [16]byte) (int64, uint16) {
	slock := findC16PNewLeader(t, dataDir)
	defer slock.Close()
	findC16PWaitRewrite(slock)
	db := slock.GetOrNewDB(0)
	lockManager := db.GetLockManager(&protocol.LockCommand{DbId: 0, LockKey: key})
	if lockManager == nil {
		return 0, 0
	}
	lockManager.glock.Lock()
	defer lockManager.glock.Unlock()
	if lockManager.locked == 0 || lockManager.currentLock == nil || lockManager.currentLock.command.LockId != lockId {
		return 0, 0
	}
	return lockManager.currentLock.expriedTime, lockManager.currentLock.command.Expried
}

func TestFindingC16PriorityModeRenewalKeptByCompaction(t *testing.T) {
	baseDir, err := os.MkdirTemp("", "zzprobep")
	if err != nil {
		t.Fatalf("mkdtemp: %v", err)
	}
	defer func() { _ = os.RemoveAll(baseDir) }()
	liveDir := filepath.Join(baseDir, "live")
	beforeDir := filepath.Join(baseDir, "before")
	for _, dir := range []string{liveDir, beforeDir} {
		if err = os.Mkdir(dir, 0755); err != nil {
			t.Fatalf("mkdir: %v", err)
		}
	}

	key := [16]byte{'z', 'z', 'd', 'e', 'm', 'o', '1', 'k'}
	lockId := [16]byte{'z', 'z', 'd', 'e', 'm', 'o', '1', 'i'}
	expriedFlag := uint16(protocol.EXPRIED_FLAG_MINUTE_TIME | protocol.EXPRIED_FLAG_ZEOR_AOF_TIME)

	slock := findC16PNewLeader(t, liveDir)
	closed := false
	defer func() {
		if !closed {
			slock.Close()
		}
	}()
	db := slock.GetOrNewDB(0)
	results := make([]uint8, 0)
	serverProtocol := NewMemWaiterServerProtocol(slock)
	_ = serverProtocol.SetResultCallback(func(_ *MemWaiterServerProtocol, _ *protocol.LockCommand, result uint8, _ uint16, _ uint8, _ []byte) error {
		results = append(results, result)
		return nil
	})

	// keep clear of the once-a-second refresh of db.currentTime
	waitQuietWindow := func() {
		for {
			ns := time.Now().Nanosecond()
			if ns > 250000000 && ns < 600000000 {
				return
			}
			time.Sleep(10 * time.Millisecond)
		}
	}

	waitQuietWindow()
	// the hold: 10 minutes, persisted at once
	lockCommand := &protocol.LockCommand{Command: protocol.Command{Magic: protocol.MAGIC, Version: protocol.VERSION, CommandType: protocol.COMMAND_LOCK},
		DbId: 0, LockId: lockId, LockKey: key, TimeoutFlag: protocol.TIMEOUT_FLAG_RCOUNT_IS_PRIORITY, ExpriedFlag: expriedFlag, Expried: 10}
	if err = db.Lock(serverProtocol, lockCommand, 0); err != nil {
		t.Fatalf("lock: %v", err)
	}
	// the extension: 30 minutes
	updateCommand := &protocol.LockCommand{Command: protocol.Command{Magic: protocol.MAGIC, Version: protocol.VERSION, CommandType: protocol.COMMAND_LOCK},
		Flag: protocol.LOCK_FLAG_UPDATE_WHEN_LOCKED, DbId: 0, LockId: lockId, LockKey: key, TimeoutFlag: protocol.TIMEOUT_FLAG_RCOUNT_IS_PRIORITY, ExpriedFlag: expriedFlag, Expried: 30}
	if err = db.Lock(serverProtocol, updateCommand, 0); err != nil {
		t.Fatalf("update: %v", err)
	}
	if len(results) != 2 || results[0] != protocol.RESULT_SUCCED || results[1] != protocol.RESULT_LOCKED_ERROR {
		t.Fatalf("unexpected replies %v", results)
	}
	lockManager := db.GetLockManager(lockCommand)
	if lockManager == nil || lockManager.currentLock == nil {
		t.Fatalf("hold missing")
	}
	updatedAt := lockManager.currentLock.startTime
	liveDeadline := lockManager.currentLock.expriedTime
	if liveDeadline != updatedAt+30*60+1 {
		t.Fatalf("live deadline %d, updated at %d", liveDeadline, updatedAt)
	}

	_ = slock.aof.WaitFlushAofChannel()
	slock.aof.FlushWithLocked()
	if slock.aof.aofLockCount != 2 {
		t.Fatalf("expected 2 persisted records, got %d", slock.aof.aofLockCount)
	}
	findC16PWaitRewrite(slock)

	// the files the compaction is about to replace
	findC16PCopyDir(t, liveDir, beforeDir)

	// rotate, then compact exactly one minute after the extension
	waitQuietWindow()
	slock.aof.aofGlock.Lock()
	err = slock.aof.RewriteAofFile(false)
	slock.aof.aofGlock.Unlock()
	if err != nil {
		t.Fatalf("rotate: %v", err)
	}
	db.currentTime = updatedAt + 5
	slock.aof.rewriteAofFiles()
	if db.currentTime != updatedAt+5 {
		t.Fatalf("engine clock moved during the compaction, timing window missed")
	}
	db.currentTime = time.Now().Unix()
	if _, serr := os.Stat(filepath.Join(liveDir, "rewrite.aof")); serr != nil {
		t.Fatalf("compaction left no rewrite.aof: %v", serr)
	}
	if _, serr := os.Stat(filepath.Join(liveDir, "append.aof.1")); serr == nil {
		t.Fatalf("compaction did not consume append.aof.1")
	}
	slock.Close()
	closed = true

	beforeDeadline, beforeMinutes := findC16PRecover(t, beforeDir, key, lockId)
	afterDeadline, afterMinutes := findC16PRecover(t, liveDir, key, lockId)
	if beforeDeadline == 0 {
		t.Fatalf("hold not recovered from the uncompacted files")
	}
	if beforeDeadline < liveDeadline-61 || beforeDeadline > liveDeadline+61 {
		t.Fatalf("uncompacted files recover deadline %d, live deadline was %d", beforeDeadline, liveDeadline)
	}
	if afterDeadline == 0 {
		t.Fatalf("hold not recovered from the compacted files")
	}
	diff := afterDeadline - beforeDeadline
	if diff < 0 {
		diff = -diff
	}
	if diff > 61 {
		t.Fatalf("compaction changed what a restart recovers: deadline %d (%d min) from the replaced files, %d (%d min) from the compacted files",
			beforeDeadline, beforeMinutes, afterDeadline, afterMinutes)
	}
}
