// Demonstration for the recorded finding C12 "(*server.ArbiterManager).commandHandleCommitCommand/post:C12.commit.durable":
// an acceptor that accepts a proposal and then a commit changes voter.proposalId / commitId / proposalHost in memory
// only. The metadata file (meta.pb) is written by ArbiterStore.Save at other moments (a vote that succeeded, an
// announcement) and records commitId alone; proposalId and the outstanding-commit marker proposalHost are never saved.
// A member that restarts between a commit and the announcement therefore comes back with the numbers it had before:
// it accepts a second proposal and commit WITH THE SAME NUMBER for a different host - two candidacies both gather a
// commit majority through it (C12: "a member that restarts from its saved metadata in between must not make a second
// winner possible", "accepted proposal number and committed number never decrease").
// Belongs in server/ (in-package). Run on a scratch copy:
//   tools/run_in_scratch.sh findings/C12_commit_not_durable_test.go TestFindingC12CommitNotDurable
package server

import (
	"os"
	"testing"

	"github.com/snower/slock/protocol"
	"github.com/snower/slock/protocol/protobuf"
	"google.golang.org/protobuf/proto"
)

func TestFindingC12CommitNotDurable(t *testing.T) {
	dir, err := os.MkdirTemp("", "c12meta")
	if err != nil {
		t.Fatal(err)
	}
	defer os.RemoveAll(dir)
	serverConfig := &ServerConfig{DBConcurrent: 1, LogLevel: "ERROR", Log: "-", DataDir: dir}
	oldConfig := Config
	Config = serverConfig
	defer func() { Config = oldConfig }()
	logger, err := InitLogger(serverConfig)
	if err != nil {
		t.Fatal(err)
	}
	hosts := []string{"n1:5658", "n2:5658", "n3:5658"}
	aofId := [16]byte{0x10, 0, 0, 0, 1, 0, 0, 0, 7, 0, 0, 0, 0, 0, 0, 0}
	boot := func() (*ArbiterManager, map[string]*BinaryServerProtocol) {
		slock := NewSLock(serverConfig, logger)
		manager := NewArbiterManager(slock, "demo")
		slock.arbiterManager = manager
		slock.replicationManager.currentAofId = aofId
		manager.gid = "demo-gid"
		return manager, map[string]*BinaryServerProtocol{}
	}
	wire := func(manager *ArbiterManager, conns map[string]*BinaryServerProtocol) {
		for _, member := range manager.members {
			member.role = ARBITER_ROLE_FOLLOWER
			member.aofId = aofId
			member.status = ARBITER_MEMBER_STATUS_ONLINE
			if member.host != "n1:5658" {
				conn := &BinaryServerProtocol{}
				member.server = &ArbiterServer{member: member, protocol: conn}
				conns[member.host] = conn
			}
		}
	}
	propose := func(m *ArbiterManager, conn *BinaryServerProtocol, id uint64, host string) bool {
		data, _ := proto.Marshal(&protobuf.ArbiterProposalRequest{ProposalId: id, AofId: m.EncodeAofId(aofId), Host: host})
		r, err := m.commandHandleProposalCommand(conn, protocol.NewCallCommand("REPL_PROPOSAL", data))
		return err == nil && r.Result == 0 && r.ErrType == ""
	}
	commit := func(m *ArbiterManager, conn *BinaryServerProtocol, id uint64, host string) bool {
		data, _ := proto.Marshal(&protobuf.ArbiterCommitRequest{ProposalId: id, AofId: m.EncodeAofId(aofId), Host: host})
		r, err := m.commandHandleCommitCommand(conn, protocol.NewCallCommand("REPL_COMMIT", data))
		return err == nil && r.Result == 0 && r.ErrType == ""
	}

	// member n1 as it runs, with its metadata on disk
	m1, conns1 := boot()
	for _, h := range hosts {
		member := NewArbiterMember(m1, h, 1, 0)
		if h == "n1:5658" {
			member.isSelf = true
			m1.ownMember = member
		}
		m1.members = append(m1.members, member)
	}
	wire(m1, conns1)
	if err := m1.store.Save(m1); err != nil {
		t.Fatal(err)
	}
	// candidacy B (run by n2) proposes and commits number 1 for n2 at n1
	if !propose(m1, conns1["n2:5658"], 1, "n2:5658") || !commit(m1, conns1["n2:5658"], 1, "n2:5658") {
		t.Fatal("setup: n1 should accept proposal and commit 1 for n2")
	}
	if m1.voter.commitId != 1 || m1.voter.proposalHost != "n2:5658" {
		t.Fatalf("setup: voter state %d %q", m1.voter.commitId, m1.voter.proposalHost)
	}

	// n1 is restarted from its saved metadata before any announcement
	m2, conns2 := boot()
	if err := m2.store.Load(m2); err != nil {
		t.Fatal(err)
	}
	wire(m2, conns2)
	if m2.voter.commitId < 1 {
		t.Errorf("after the restart the committed number went back from 1 to %d (accepted number %d, outstanding commit %q)", m2.voter.commitId, m2.voter.proposalId, m2.voter.proposalHost)
	}
	// candidacy A (run by n3) overlaps: the same number for another host
	if propose(m2, conns2["n3:5658"], 1, "n3:5658") && commit(m2, conns2["n3:5658"], 1, "n3:5658") {
		t.Errorf("the restarted member accepted proposal and commit 1 for n3 although it had committed 1 for n2: both candidacies can gather a commit majority through it")
	}
}
