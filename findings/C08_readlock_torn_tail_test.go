package server

// Demonstration for the repaired defect C08 "(*server.AofFile).ReadLock/post:C08.record.whole"
// (fix commit e38a5d9): the last record of an append file is cut after 30 of its 64 bytes. Before the fix the
// second ReadLock returned nil and the caller replayed the torn bytes padded with the previous record; with
// the fix it returns io.EOF and the log ends after the first record.
// Run on a scratch copy:  tools/run_in_scratch.sh findings/C08_readlock_torn_tail_test.go TestFindingC08ReadLockTornTail

import (
	"os"
	"path/filepath"
	"testing"
)

func TestFindingC08ReadLockTornTail(t *testing.T) {
	dir := t.TempDir()
	name := filepath.Join(dir, "append.aof.1")
	aof := &Aof{}
	w := NewAofFile(aof, name, os.O_WRONLY, 4096)
	if err := w.Open(); err != nil {
		t.Fatal(err)
	}
	for i := 0; i < 2; i++ {
		l := NewAofLock()
		l.CommandType, l.AofIndex, l.AofOffset = 1, 1, uint32(i+1)
		l.LockKey[0] = byte('a' + i)
		_ = l.Encode()
		if err := w.WriteLock(l); err != nil {
			t.Fatal(err)
		}
	}
	_ = w.Flush()
	_ = w.Close()
	if err := os.Truncate(name, 12+64+30); err != nil {
		t.Fatal(err)
	}
	r := NewAofFile(aof, name, os.O_RDONLY, 4096)
	if err := r.Open(); err != nil {
		t.Fatal(err)
	}
	lock := NewAofLock()
	if err := r.ReadLock(lock); err != nil {
		t.Fatalf("first record: %v", err)
	}
	if err := r.ReadLock(lock); err == nil {
		_ = lock.Decode()
		t.Fatalf("torn second record was returned as read: key %q offset %d", lock.LockKey[0], lock.AofOffset)
	}
	_ = r.Close()
}
