// Demonstration for the repaired defect C06 "(*server.LockManager).AddLock/post:C06.grant.not-early" (and the same
// arithmetic for time-outs, C05 "(*server.LockManager).GetOrNewLock/post:C05.deadline.not-early"):
// with the millisecond unit an expiry (or timeout) of 3000 ms or more is handed from the millisecond wheel to the
// second wheel with the deadline  start second + E/1000 + 1.  The division rounds down, so the fraction of a second in
// E is lost, and the second in which the hold was granted had already partly passed: a hold granted 850 ms into a
// second with E = 3999 ms is ended about 3.15 s after its grant - before E has passed (C06: "never ended by the
// server before E has passed since it was granted"). With the fix the division rounds up.
// Belongs in server/ (in-package test, about 6 s of real time).
// Run on a scratch copy:  tools/run_in_scratch.sh findings/C06_millisecond_deadline_floor_test.go TestFindingC06MillisecondDeadlineFloor
package server

import (
	"sync"
	"testing"
	"time"

	"github.com/jessevdk/go-flags"
	"github.com/snower/slock/protocol"
)

func TestFindingC06MillisecondDeadlineFloor(t *testing.T) {
	serverConfig := &ServerConfig{}
	if _, err := flags.NewParser(serverConfig, flags.Default).ParseArgs([]string{}); err != nil {
		t.Fatal(err)
	}
	logger, _ := InitLogger(serverConfig)
	slock := NewSLock(serverConfig, logger)
	slock.state = STATE_LEADER
	db := slock.GetOrNewDB(0)
	sp := NewMemWaiterServerProtocol(slock)
	var mu sync.Mutex
	at := map[[16]byte]map[uint8]time.Time{}
	_ = sp.SetResultCallback(func(_ *MemWaiterServerProtocol, command *protocol.LockCommand, result uint8, _ uint16, _ uint8, _ []byte) error {
		mu.Lock()
		if at[command.LockId] == nil {
			at[command.LockId] = map[uint8]time.Time{}
		}
		at[command.LockId][result] = time.Now()
		mu.Unlock()
		return nil
	})
	mk := func(key byte, id byte) *protocol.LockCommand {
		c := &protocol.LockCommand{}
		c.Magic, c.Version, c.CommandType, c.RequestId = protocol.MAGIC, protocol.VERSION, protocol.COMMAND_LOCK, protocol.GenRequestId()
		c.LockKey = [16]byte{'m', 's', key}
		c.LockId = [16]byte{'i', 'd', id}
		return c
	}
	// wait for the phase 850 ms into a second, with the server clock of that second already published
	for time.Now().Nanosecond()/1e6 < 850 {
		time.Sleep(5 * time.Millisecond)
	}
	for time.Now().Nanosecond()/1e6 >= 900 {
		time.Sleep(5 * time.Millisecond)
		for time.Now().Nanosecond()/1e6 < 850 {
			time.Sleep(5 * time.Millisecond)
		}
	}
	const E = 3999
	// a hold with expiry 3999 ms
	h := mk('e', 'H')
	h.Timeout, h.Expried, h.ExpriedFlag = 0, E, protocol.EXPRIED_FLAG_MILLISECOND_TIME
	hId := h.LockId
	granted := time.Now()
	_ = db.Lock(sp, h, 0)
	// a holder without expiry on another key, and a request that waits for it with timeout 3999 ms
	b := mk('t', 'B')
	b.Timeout, b.Expried, b.ExpriedFlag = 0, 0xffff, protocol.EXPRIED_FLAG_UNLIMITED_EXPRIED_TIME
	_ = db.Lock(sp, b, 0)
	w := mk('t', 'W')
	w.Timeout, w.TimeoutFlag, w.Expried = E, protocol.TIMEOUT_FLAG_MILLISECOND_TIME, 10
	wId := w.LockId
	queued := time.Now()
	_ = db.Lock(sp, w, 0)

	time.Sleep(5500 * time.Millisecond)
	mu.Lock()
	defer mu.Unlock()
	if _, ok := at[hId][protocol.RESULT_SUCCED]; !ok {
		t.Fatalf("the hold was not granted: %v", at[hId])
	}
	exp, ok := at[hId][protocol.RESULT_EXPRIED]
	if !ok {
		t.Fatalf("no EXPRIED within 5.5 s for an expiry of %d ms", E)
	}
	if d := exp.Sub(granted); d < E*time.Millisecond {
		t.Errorf("C06: hold with expiry %d ms was ended %v after its grant", E, d)
	}
	to, ok := at[wId][protocol.RESULT_TIMEOUT]
	if !ok {
		t.Fatalf("no TIMEOUT within 5.5 s for a timeout of %d ms: %v", E, at[wId])
	}
	if d := to.Sub(queued); d < E*time.Millisecond {
		t.Errorf("C05: request with timeout %d ms was answered TIMEOUT %v after it was queued", E, d)
	}
}
