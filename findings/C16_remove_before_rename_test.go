package server

// Demonstration for the known finding C16 "(*server.Aof).clearRewriteAofFiles/site/Remove#*:C16.crash.rename-first":
// the compaction removes the files it has just compacted BEFORE it renames rewrite.aof.tmp into place. The
// directory between the two steps holds neither the inputs nor a rewrite.aof that a restart would read
// (FindAofFiles ignores rewrite.aof.tmp, clearAofFiles deletes it). The test reaches that intermediate
// directory state with the real function by making the rename step fail (a directory sits on the target
// name), which leaves exactly what a crash after the last Remove leaves behind.
// Run on a scratch copy:  tools/run_in_scratch.sh findings/C16_remove_before_rename_test.go TestFindingC16RemoveBeforeRename

import (
	"os"
	"path/filepath"
	"testing"

	"github.com/jessevdk/go-flags"
)

func TestFindingC16RemoveBeforeRename(t *testing.T) {
	dir := t.TempDir()
	serverConfig := &ServerConfig{}
	if _, err := flags.NewParser(serverConfig, flags.Default).ParseArgs([]string{}); err != nil {
		t.Fatal(err)
	}
	logger, _ := InitLogger(serverConfig)
	slock := NewSLock(serverConfig, logger)
	aof := slock.GetAof()
	aof.dataDir = dir
	write := func(name string, keys ...byte) {
		w := NewAofFile(aof, filepath.Join(dir, name), os.O_WRONLY, 4096)
		if err := w.Open(); err != nil {
			t.Fatal(err)
		}
		for i, k := range keys {
			l := NewAofLock()
			l.CommandType, l.AofIndex, l.AofOffset = 1, 1, uint32(i+1)
			l.LockKey[0], l.LockId[0] = k, k
			l.ExpriedFlag = 0x4000
			_ = l.Encode()
			if err := w.WriteLock(l); err != nil {
				t.Fatal(err)
			}
		}
		_ = w.Flush()
		_ = w.Close()
	}
	recoverable := func() int {
		appendFiles, rewriteFile, err := aof.FindAofFiles()
		if err != nil {
			t.Fatal(err)
		}
		names := append([]string{}, appendFiles...)
		if rewriteFile != "" {
			names = append([]string{rewriteFile}, names...)
		}
		n := 0
		_, _ = aof.LoadAofFiles(names, 0, func(string, *AofFile, *AofLock, bool) (bool, error) { n++; return true, nil })
		return n
	}
	write("append.aof.1", 'a', 'b')
	if n := recoverable(); n != 2 {
		t.Fatalf("before compaction a restart reads %d records, want 2", n)
	}
	write("rewrite.aof.tmp", 'a', 'b') // the compacted output, complete and closed
	if err := os.Mkdir(filepath.Join(dir, "rewrite.aof"), 0755); err != nil {
		t.Fatal(err)
	}
	_ = os.WriteFile(filepath.Join(dir, "rewrite.aof", "x"), []byte("x"), 0644)
	aof.clearRewriteAofFiles([]string{"append.aof.1"})
	if n := recoverable(); n != 2 {
		t.Fatalf("in the directory left between 'remove inputs' and 'rename output' a restart reads %d records, want 2", n)
	}
}
