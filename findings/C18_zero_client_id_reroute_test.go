package server

// Demonstration for the repaired defect C18/C03 "(*server.ProxyServerProtocol).ProcessLockResultCommandLocked/site/
// AddProxy#1:C18.proxy.announced": replies for a closed connection are re-routed to the connection that now owns the
// closed connection's client id. A connection that never sent INIT has the all-zero id, and INIT accepts an all-zero
// id: the late reply of an anonymous closed connection (the grant of a request it left queued) was written to an
// unrelated live client that had announced client id 00..00 - a reply bearing a RequestId that client never sent.
// With the fix only replies of connections that announced an id are re-routed; the others are dropped.
// Run on a scratch copy:  tools/run_in_scratch.sh findings/C18_zero_client_id_reroute_test.go TestFindingC18ZeroClientIdReroute

import (
	"io"
	"net"
	"testing"
	"time"

	"github.com/jessevdk/go-flags"
	"github.com/snower/slock/protocol"
)

func TestFindingC18ZeroClientIdReroute(t *testing.T) {
	serverConfig := &ServerConfig{}
	if _, err := flags.NewParser(serverConfig, flags.Default).ParseArgs([]string{}); err != nil {
		t.Fatal(err)
	}
	logger, _ := InitLogger(serverConfig)
	slock := NewSLock(serverConfig, logger)
	slock.state = STATE_LEADER
	slock.GetOrNewDB(0)
	connect := func() net.Conn {
		client, server := net.Pipe()
		sp := NewBinaryServerProtocol(slock, NewStream(server))
		go func() {
			_ = sp.Process()
			_ = sp.Close()
		}()
		return client
	}
	send := func(c net.Conn, cmd protocol.CommandEncode) {
		buf := make([]byte, 64)
		_ = cmd.Encode(buf)
		_ = c.SetDeadline(time.Now().Add(2 * time.Second))
		if _, err := c.Write(buf); err != nil {
			t.Fatal(err)
		}
	}
	recv := func(c net.Conn, d time.Duration) []byte {
		buf := make([]byte, 64)
		_ = c.SetReadDeadline(time.Now().Add(d))
		if _, err := io.ReadFull(c, buf); err != nil {
			return nil
		}
		return buf
	}
	key := protocol.GenLockId()
	h, a, z := connect(), connect(), connect()
	hold := protocol.NewLockCommand(0, key, protocol.GenLockId(), 0, 60, 0)
	send(h, hold)
	if r := recv(h, 2*time.Second); r == nil || r[19] != protocol.RESULT_SUCCED {
		t.Fatalf("holder not granted: % x", r)
	}
	queued := protocol.NewLockCommand(0, key, protocol.GenLockId(), 30, 60, 0)
	send(a, queued) // anonymous connection A leaves a request queued
	send(z, protocol.NewInitCommand([16]byte{}))
	if r := recv(z, 2*time.Second); r == nil || r[2] != protocol.COMMAND_INIT {
		t.Fatalf("no INIT reply on Z: % x", r)
	}
	time.Sleep(50 * time.Millisecond)
	_ = a.Close()
	time.Sleep(100 * time.Millisecond)
	unlock := protocol.NewLockCommand(0, key, hold.LockId, 0, 0, 0)
	unlock.CommandType = protocol.COMMAND_UNLOCK
	send(h, unlock)
	if r := recv(h, 2*time.Second); r == nil || r[19] != protocol.RESULT_SUCCED {
		t.Fatalf("unlock not answered: % x", r)
	}
	if r := recv(z, 500*time.Millisecond); r != nil {
		t.Fatalf("client Z (announced id 00..00) received a reply it never asked for: type %d request id % x (A's request id % x)", r[2], r[3:19], queued.RequestId)
	}
}
