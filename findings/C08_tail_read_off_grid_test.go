package server

// Demonstration for a repaired defect of C08/C09: "(*server.AofFile).ReadTail/site/ReadAt#1:C08.tail.on-grid".
// ReadTail (used by LoadMaxAofId at every leader start and by LoadFileMaxAofLock) read "the newest record" from the last 64
// bytes of the file. After a crash inside a record (file length 12+64k+r, 0<r<64) those 64 bytes are the tail of the last
// whole record followed by the head of the torn one: ReadTail either refused them with "Lock Len error" (and initLeader then
// returned without initialising replication) or, when the two bytes at that position happen to read 62,0 - here bytes 0 and 1
// of a client-chosen lock key - decoded a record out of them: the log position a leader starts replication from was made up
// from the bytes of a lock key. With the repair the newest whole record on the 64-byte grid is read, whatever the length.
// Run on a scratch copy:  tools/run_in_scratch.sh findings/C08_tail_read_off_grid_test.go TestFindingC08Tail

import (
	"os"
	"path/filepath"
	"testing"

	"github.com/jessevdk/go-flags"
)

func findC08TailConfig(t *testing.T) func() {
	saved := Config
	cfg := &ServerConfig{}
	if _, err := flags.NewParser(cfg, flags.Default).ParseArgs([]string{}); err != nil {
		t.Fatal(err)
	}
	Config = cfg
	return func() { Config = saved }
}

func findC08TailWrite(t *testing.T, aof *Aof, name string, count int) {
	w := NewAofFile(aof, name, os.O_WRONLY, 4096)
	if err := w.Open(); err != nil {
		t.Fatal(err)
	}
	for i := 0; i < count; i++ {
		l := NewAofLock()
		l.CommandType, l.AofIndex, l.AofOffset = 1, 1, uint32(i+1)
		l.ExpriedFlag = 0x4000
		// a lock key whose first two bytes read like the length prefix of a record and whose bytes 3..10 read like a log position
		l.LockKey = [16]byte{62, 0, 1, 0x77, 0x77, 0x77, 0x77, 0x66, 0x66, 0x66, 0x66}
		_ = l.Encode()
		if err := w.WriteLock(l); err != nil {
			t.Fatal(err)
		}
	}
	_ = w.Flush()
	_ = w.Close()
}

func TestFindingC08TailEveryResidue(t *testing.T) {
	defer findC08TailConfig(t)()
	for r := int64(0); r < 64; r++ {
		dir := t.TempDir()
		aof := &Aof{dataDir: dir}
		name := filepath.Join(dir, "append.aof.1")
		findC08TailWrite(t, aof, name, 4)
		if err := os.Truncate(name, 12+3*64+r); err != nil {
			t.Fatal(err)
		}
		l, err := aof.LoadFileMaxAofLock("append.aof.1")
		if err != nil {
			t.Errorf("file cut %d bytes into the 4th record: newest record refused: %v", r, err)
			continue
		}
		if l.AofIndex != 1 || l.AofOffset != 3 {
			t.Errorf("file cut %d bytes into the 4th record: newest record is (index %#x, offset %#x), want the 3rd record (1, 3)", r, l.AofIndex, l.AofOffset)
		}
	}
}
