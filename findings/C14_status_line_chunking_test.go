package protocol

// Demonstration for the repaired defect C14 "(*protocol.TextParser).ParseResponse/inv-entry/loop#5:C14.parser.status-text" (and loop#6)
// (reported by a sub-agent writing seeded changes; reproduced and put under the clause here): the reply parser collects the text of a
// status line (+OK) or error line (-ERR message) chunk by chunk. Each chunk's contribution was rbuf[start : end+1] with `end` starting at
// `start`, so the first byte of a chunk was always taken - also when it was the line's CR, LF or the space after the error type:
// "+OK" | "\r\n" parsed as "OK\r", "+OK\r" | "\n" as "OK\n", "-ERR" | " Unknown Command\r\n" gave the error type "ERR ".
// The parse of a reply therefore depended on how the stream was cut. With the repair `end` starts in front of the chunk.
// Run on a scratch copy (package protocol):  cp findings/C14_status_line_chunking_test.go <scratch>/protocol/zz_test.go; go test -run TestFindingC14StatusLineChunking ./protocol

import (
	"reflect"
	"testing"
)

func findC14ParseChunks(chunks []string) ([]string, error) {
	p := NewTextParser(make([]byte, 1024), make([]byte, 1024))
	for _, c := range chunks {
		n := copy(p.GetReadBuf(), c)
		p.BufferUpdate(n)
		for !p.IsBufferEnd() {
			if err := p.ParseResponse(); err != nil {
				return nil, err
			}
			if p.IsParseFinish() {
				return append([]string{}, p.GetArgs()...), nil
			}
		}
	}
	return append([]string{"incomplete"}, p.GetArgs()...), nil
}

func TestFindingC14StatusLineChunking(t *testing.T) {
	for _, whole := range []string{"+OK\r\n", "-ERR Unknown Command\r\n", "-ERR\r\n"} {
		want, err := findC14ParseChunks([]string{whole})
		if err != nil {
			t.Fatalf("unsplit %q: %v %v", whole, want, err)
		}
		for cut := 1; cut < len(whole); cut++ {
			got, err := findC14ParseChunks([]string{whole[:cut], whole[cut:]})
			if err != nil || !reflect.DeepEqual(got, want) {
				t.Errorf("%q cut after %d bytes parses as %q (error %v), unsplit as %q", whole, cut, got, err, want)
			}
		}
	}
}
