package protocol

// Demonstration for the repaired defect C14 "protocol.NewLockCommandDataSetKV/site/copy#1:C14.kv.keylen": the key/value
// value frame wrote the length of the VALUE into the length field of the KEY, so a pair whose key and value differ in
// length did not read back (GetKVValue of the same frame): {"ab": "wxyz"} came back empty.
// Belongs in protocol/. Run on a scratch copy.

import "testing"

func TestFindingC14KVValueKeyLength(t *testing.T) {
	in := map[string][]byte{"ab": []byte("wxyz")}
	frame := NewLockCommandDataSetKV(in)
	out := NewLockResultCommandDataFromOriginBytes(frame.Data).GetKVValue()
	if string(out["ab"]) != "wxyz" || len(out) != 1 {
		t.Fatalf("key/value frame does not read back: wrote %q, read %q (frame % x)", in, out, frame.Data)
	}
}
