package server

// Demonstration for the repaired defect C03 "(*server.TextServerProtocol).ProcessLockResultCommand/post:C03.text.awaited":
// PUSH on the text protocol is fire-and-forget: the handler answers +OK and does not wait for the engine's reply. The
// engine's reply to the PUSH was parked in the connection's reply channel all the same, so the next LOCK on that
// connection was answered with the PUSH's result (other lock id, other key's counts) while its own reply stayed parked
// for the command after it; after four PUSHes the channel was full and the fifth blocked the connection for ever.
// With the fix a reply nobody on the connection is waiting for is dropped (as the asynchronous path always did).
// Run on a scratch copy:  tools/run_in_scratch.sh findings/C03_text_push_reply_misrouted_test.go TestFindingC03TextPushReplyMisrouted

import (
	"bufio"
	"encoding/hex"
	"net"
	"strings"
	"testing"
	"time"

	"github.com/jessevdk/go-flags"
)

func TestFindingC03TextPushReplyMisrouted(t *testing.T) {
	serverConfig := &ServerConfig{}
	if _, err := flags.NewParser(serverConfig, flags.Default).ParseArgs([]string{}); err != nil {
		t.Fatal(err)
	}
	logger, _ := InitLogger(serverConfig)
	slock := NewSLock(serverConfig, logger)
	slock.state = STATE_LEADER
	slock.GetOrNewDB(0)

	client, server := net.Pipe()
	sp := NewTextServerProtocol(slock, NewStream(server))
	go func() {
		_ = sp.Process()
		_ = sp.Close()
	}()
	defer client.Close()
	_ = client.SetDeadline(time.Now().Add(5 * time.Second))
	rd := bufio.NewReader(client)
	send := func(args ...string) {
		var b strings.Builder
		b.WriteString("*" + itoa(len(args)) + "\r\n")
		for _, a := range args {
			b.WriteString("$" + itoa(len(a)) + "\r\n" + a + "\r\n")
		}
		if _, err := client.Write([]byte(b.String())); err != nil {
			t.Fatal(err)
		}
	}
	line := func() string {
		s, err := rd.ReadString('\n')
		if err != nil {
			t.Fatalf("no reply: %v", err)
		}
		return strings.TrimRight(s, "\r\n")
	}

	// six fire-and-forget PUSHes: more than the reply channel can park
	for i := 0; i < 6; i++ {
		send("PUSH", "pushkey"+itoa(i), "LOCK_ID", "pushed-lock-id-0"+itoa(i))
		if got := line(); got != "+OK" {
			t.Fatalf("PUSH %d: %q", i, got)
		}
	}
	// a LOCK on another key with its own lock id: the reply must be about this request
	send("LOCK", "lockkey", "LOCK_ID", "my-own-lock-id-9")
	var reply []string
	n := line() // *N
	if !strings.HasPrefix(n, "*") {
		t.Fatalf("LOCK reply: %q", n)
	}
	cnt := atoi(n[1:])
	for i := 0; i < cnt; i++ {
		h := line()
		if strings.HasPrefix(h, "$") {
			reply = append(reply, line())
		} else {
			reply = append(reply, h)
		}
	}
	joined := strings.Join(reply, " ")
	if !strings.Contains(joined, hex.EncodeToString([]byte("my-own-lock-id-9"))) {
		t.Fatalf("the LOCK was answered with another request's reply: %s", joined)
	}
}

func itoa(n int) string {
	if n == 0 {
		return "0"
	}
	s := ""
	for n > 0 {
		s = string(rune('0'+n%10)) + s
		n /= 10
	}
	return s
}

func atoi(s string) int {
	n := 0
	for _, c := range s {
		n = n*10 + int(c-'0')
	}
	return n
}
