package server

// Demonstrations for the repaired defect C13 "safe/(*protocol.LockResultCommandData).GetDataProperty/index:*" and its
// siblings: the value a client stores with a key is kept as the bytes it sent. Its flag byte may call it an array, a
// key/value list, or announce a property block; the element, pair and property lengths inside were trusted by every
// reader. One connection stores a value whose inner length points past its end, another one reads it:
//   * KEYS (text) walks the property block of every stored value           -> GetDataProperty indexed past the frame
//   * GET (text) renders an array / key-value value                         -> GetArrayValue / GetKVValue sliced past it
//   * a POP value operation (binary) walks the stored array inside the key's critical section -> same
// Nothing recovers on those goroutines, so each ended the server process. With the fix the readers stop at the first
// element that does not fit (the remainder of a malformed value is ignored).
// Run on a scratch copy:  tools/run_in_scratch.sh findings/C13_stored_value_structure_test.go TestFindingC13StoredValueStructure

import (
	"net"
	"testing"
	"time"

	"github.com/jessevdk/go-flags"
	"github.com/snower/slock/protocol"
)

func TestFindingC13StoredValueStructure(t *testing.T) {
	serverConfig := &ServerConfig{}
	if _, err := flags.NewParser(serverConfig, flags.Default).ParseArgs([]string{}); err != nil {
		t.Fatal(err)
	}
	logger, _ := InitLogger(serverConfig)
	slock := NewSLock(serverConfig, logger)
	slock.state = STATE_LEADER
	drive := func(name string, sp interface{ Process() error }, client net.Conn, payload []byte) {
		done := make(chan interface{}, 1)
		go func() {
			defer func() { done <- recover() }()
			_ = sp.Process()
		}()
		go func() {
			buf := make([]byte, 4096)
			for {
				if _, err := client.Read(buf); err != nil {
					return
				}
			}
		}()
		_ = client.SetDeadline(time.Now().Add(time.Second))
		_, _ = client.Write(payload)
		time.Sleep(50 * time.Millisecond)
		_ = client.Close()
		select {
		case r := <-done:
			if r != nil {
				t.Errorf("%s: the connection goroutine panicked: %v", name, r)
			}
		case <-time.After(3 * time.Second):
		}
	}
	lockFrame := func(key string, body []byte) []byte {
		cmd := protocol.NewLockCommand(0, protocol.GenLockId(), protocol.GenLockId(), 0, 600, 0)
		cmd.LockKey = [16]byte{}
		copy(cmd.LockKey[16-len(key):], key)
		if body[0] == protocol.LOCK_DATA_COMMAND_TYPE_SET {
			cmd.LockId = cmd.LockKey // as the text protocol's SET does, so that GET finds the value
		}
		cmd.Count = 10
		cmd.Flag |= protocol.LOCK_FLAG_CONTAINS_DATA
		buf := make([]byte, 64)
		_ = cmd.Encode(buf)
		frame := append(buf, byte(len(body)), 0, 0, 0)
		return append(frame, body...)
	}
	store := func(name, key string, body []byte) {
		client, server := net.Pipe()
		drive(name, NewBinaryServerProtocol(slock, NewStream(server)), client, lockFrame(key, body))
	}
	text := func(name string, line string) {
		client, server := net.Pipe()
		drive(name, NewTextServerProtocol(slock, NewStream(server)), client, []byte(line))
	}

	// a property block of two bytes holding the first two bytes of a three-byte property header
	store("store truncated property", "propkey", []byte{protocol.LOCK_DATA_COMMAND_TYPE_SET, protocol.LOCK_DATA_FLAG_CONTAINS_PROPERTY, 2, 0, protocol.LOCK_DATA_PROPERTY_CODE_KEY, 5})
	text("KEYS over a truncated property block", "*2\r\n$4\r\nKEYS\r\n$1\r\n*\r\n")

	// an array whose only element announces 16 MiB and has 5 bytes (a smaller excess may stay inside the capacity of the
	// receive buffer: then the reader does not panic, it returns the bytes that follow the value in that buffer)
	store("store short array", "arrkey", []byte{protocol.LOCK_DATA_COMMAND_TYPE_SET, protocol.LOCK_DATA_FLAG_VALUE_TYPE_ARRAY, 0, 0, 0, 1, 1, 2, 3, 4, 5})
	text("GET of a short array", "*2\r\n$3\r\nGET\r\n$6\r\narrkey\r\n")
	// a key/value list whose key announces 16 MiB
	store("store short kv", "kvkey", []byte{protocol.LOCK_DATA_COMMAND_TYPE_SET, protocol.LOCK_DATA_FLAG_VALUE_TYPE_KV, 0, 0, 0, 1, 1, 2, 3, 4, 5})
	text("GET of a short key/value list", "*2\r\n$3\r\nGET\r\n$5\r\nkvkey\r\n")
	// POP on the stored short array, inside the key's critical section
	store("POP on a short array", "arrkey", []byte{protocol.LOCK_DATA_COMMAND_TYPE_POP, protocol.LOCK_DATA_FLAG_VALUE_TYPE_NUMBER, 1, 0, 0, 0})
}
