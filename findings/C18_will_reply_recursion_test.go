package server

// Demonstration for the repaired defect C18 "(*server.BinaryServerProtocol).Close/site/ProcessCommad:C18.will.unregistered":
// a binary connection that announced a client id (INIT) and registered a will command is closed. Close marks the
// connection closed, then runs the will while the connection is still registered under its own client id: the reply
// to the will is routed "to the connection that now owns the id", which is the closing connection itself, which routes
// it again ... ProcessLockResultCommand and ProcessLockResultCommandLocked call each other until the goroutine stack
// is exhausted (fatal error: stack overflow - the server process ends; nothing can recover from it).
// 192 bytes from a client that then disconnects are enough. With the fix the closing connection gives up the id before
// its wills run; the will still takes effect (the key is held afterwards) and its reply is dropped as for any closed
// connection. Run on a scratch copy:  tools/run_in_scratch.sh findings/C18_will_reply_recursion_test.go TestFindingC18WillReplyRecursion

import (
	"io"
	"net"
	"runtime/debug"
	"testing"
	"time"

	"github.com/jessevdk/go-flags"
	"github.com/snower/slock/protocol"
)

func TestFindingC18WillReplyRecursion(t *testing.T) {
	debug.SetMaxStack(16 << 20) // fail fast instead of eating 1 GB of stack first
	serverConfig := &ServerConfig{}
	if _, err := flags.NewParser(serverConfig, flags.Default).ParseArgs([]string{}); err != nil {
		t.Fatal(err)
	}
	logger, _ := InitLogger(serverConfig)
	slock := NewSLock(serverConfig, logger)
	slock.state = STATE_LEADER
	db := slock.GetOrNewDB(0)

	client, server := net.Pipe()
	sp := NewBinaryServerProtocol(slock, NewStream(server))
	done := make(chan interface{}, 1)
	go func() {
		defer func() { done <- recover() }()
		_ = sp.Process()
		_ = sp.Close() // what Server.handle does when Process returns
	}()

	_ = client.SetDeadline(time.Now().Add(3 * time.Second))
	buf := make([]byte, 64)
	_ = protocol.NewInitCommand(protocol.GenClientId()).Encode(buf)
	if _, err := client.Write(buf); err != nil {
		t.Fatal(err)
	}
	if _, err := io.ReadFull(client, buf); err != nil {
		t.Fatalf("no INIT reply: %v", err)
	}
	will := protocol.NewLockCommand(0, protocol.GenLockId(), protocol.GenLockId(), 5, 30, 0)
	will.CommandType = protocol.COMMAND_WILL_LOCK
	_ = will.Encode(buf)
	if _, err := client.Write(buf); err != nil {
		t.Fatal(err)
	}
	time.Sleep(100 * time.Millisecond)
	_ = client.Close()

	select {
	case r := <-done:
		if r != nil {
			t.Fatalf("closing the connection panicked: %v", r)
		}
	case <-time.After(5 * time.Second):
		t.Fatal("Close did not return")
	}
	// the will took effect: the key is held on behalf of the gone connection
	lockManager := db.GetLockManager(&protocol.LockCommand{DbId: 0, LockKey: will.LockKey})
	if lockManager == nil || lockManager.locked != 1 {
		t.Fatalf("the will was not executed: manager %v", lockManager)
	}
}
