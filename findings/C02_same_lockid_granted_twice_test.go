package server

// Demonstration for the recorded finding C02 "(*server.LockDB).wakeUpWaitLock/site/AddLock#*:C02.wake.lockid-once" (reported by a sub-agent
// writing seeded changes; reproduced here): two queued requests that carry the same LockId are both granted in turn, because the wake pass
// (wakeUpWaitLock -> AddLock) never looks for an outstanding hold of that LockId - only LockDB.Lock does, and a queued request is not a holder
// yet. The LockId then owns two independent holds of depth 1 each although its Rcount is 0 ("locking it again succeeds at most Rcount more
// times"), and one unlock with Rcount 0 ("removes them all") removes only one of them.
// Not repaired: the wake pass would have to turn the second grant into a re-entrant re-lock or a refusal - a behavioural decision.
// Run on a scratch copy:  tools/run_in_scratch.sh findings/C02_same_lockid_granted_twice_test.go TestFindingC02SameLockIdGrantedTwice

import (
	"testing"

	"github.com/snower/slock/protocol"
)

func TestFindingC02SameLockIdGrantedTwice(t *testing.T) {
	testWithLockDB(t, func(db *LockDB) {
		type reply struct {
			requestId [16]byte
			result    uint8
		}
		replies := make([]reply, 0)
		p := NewMemWaiterServerProtocol(db.slock)
		defer p.Close()
		_ = p.SetResultCallback(func(_ *MemWaiterServerProtocol, c *protocol.LockCommand, result uint8, _ uint16, _ uint8, _ []byte) error {
			replies = append(replies, reply{c.RequestId, result})
			return nil
		})
		lockKey, idA, idB, idX := protocol.GenLockId(), protocol.GenLockId(), protocol.GenLockId(), protocol.GenLockId()
		lock := func(id [16]byte, timeout uint16) *protocol.LockCommand {
			c := protocol.NewLockCommand(db.dbId, lockKey, id, timeout, 300, 1) // Count 1: two holders at most
			_ = db.Lock(p, c, 0)
			return c
		}
		unlock := func(id [16]byte) uint8 {
			n := len(replies)
			u := protocol.NewLockCommand(db.dbId, lockKey, id, 0, 0, 0)
			u.CommandType = protocol.COMMAND_UNLOCK
			_ = db.UnLock(p, u, 0)
			for _, r := range replies[n:] {
				if r.requestId == u.RequestId {
					return r.result
				}
			}
			return 0xfe
		}
		lock(idA, 0)
		lock(idB, 0)
		x1 := lock(idX, 600)
		x2 := lock(idX, 600)
		if len(replies) != 2 {
			t.Fatalf("both requests of LockId X should be queued, replies %v", replies)
		}
		unlock(idA)
		unlock(idB)
		granted := 0
		for _, r := range replies {
			if (r.requestId == x1.RequestId || r.requestId == x2.RequestId) && r.result == protocol.RESULT_SUCCED {
				granted++
			}
		}
		lockManager := db.GetLockManager(x1)
		if granted == 2 {
			t.Errorf("LockId X was granted twice with Rcount 0; the key now counts %d holds", lockManager.locked)
		}
		if r := unlock(idX); r != protocol.RESULT_SUCCED {
			t.Fatalf("unlock of X: result %d", r)
		}
		if lockManager.locked != 0 {
			t.Errorf("after an unlock of X with Rcount 0 (\"removes them all\") the key still counts %d hold(s) of X", lockManager.locked)
			unlock(idX)
		}
	})
}
