package server

// Demonstrations for three repaired defects (C13 / C15), each reached with bytes a client can send:
//  * b83f9ad: a value frame announcing a property block it does not contain (PUSH or INCR frame of 6 bytes with
//    flag 0x10) indexed past the end of the frame;
//  * 95ce8ef: an INCR frame whose operand is not 8 bytes long, on a key without a value, dereferenced the
//    missing stored value;
//  * b276ad2: the text command APPEND on a key without a value dereferenced the missing previous value.
// Nothing recovers on the connection goroutine, so each ended the server process.
// Run on a scratch copy:  tools/run_in_scratch.sh findings/C13_value_frame_property_and_operand_test.go TestFindingC13ValueFrames

import (
	"net"
	"testing"
	"time"

	"github.com/jessevdk/go-flags"
	"github.com/snower/slock/protocol"
)

func TestFindingC13ValueFrames(t *testing.T) {
	serverConfig := &ServerConfig{}
	if _, err := flags.NewParser(serverConfig, flags.Default).ParseArgs([]string{}); err != nil {
		t.Fatal(err)
	}
	logger, _ := InitLogger(serverConfig)
	slock := NewSLock(serverConfig, logger)
	slock.state = STATE_LEADER
	drive := func(name string, sp interface{ Process() error }, client net.Conn, payload []byte) {
		done := make(chan interface{}, 1)
		go func() {
			defer func() { done <- recover() }()
			_ = sp.Process()
		}()
		go func() {
			buf := make([]byte, 4096)
			for {
				if _, err := client.Read(buf); err != nil {
					return
				}
			}
		}()
		_ = client.SetDeadline(time.Now().Add(time.Second))
		_, _ = client.Write(payload)
		time.Sleep(30 * time.Millisecond)
		_ = client.Close()
		select {
		case r := <-done:
			if r != nil {
				t.Errorf("%s: the connection goroutine panicked: %v", name, r)
			}
		case <-time.After(3 * time.Second):
			// a request that is still waiting for its lock is not a crash
		}
	}
	for _, body := range [][]byte{{protocol.LOCK_DATA_COMMAND_TYPE_PUSH, 0x10}, {protocol.LOCK_DATA_COMMAND_TYPE_INCR, 0x10}, {protocol.LOCK_DATA_COMMAND_TYPE_INCR, 0}} {
		client, server := net.Pipe()
		cmd := protocol.NewLockCommand(0, protocol.GenLockId(), protocol.GenLockId(), 0, 1, 0)
		cmd.Flag |= protocol.LOCK_FLAG_CONTAINS_DATA
		buf := make([]byte, 64)
		_ = cmd.Encode(buf)
		frame := append(buf, byte(len(body)), 0, 0, 0)
		frame = append(frame, body...)
		drive("binary value frame", NewBinaryServerProtocol(slock, NewStream(server)), client, frame)
	}
	client, server := net.Pipe()
	drive("APPEND on a fresh key", NewTextServerProtocol(slock, NewStream(server)), client, []byte("*3\r\n$6\r\nAPPEND\r\n$8\r\nfreshkey\r\n$1\r\nv\r\n"))
}
