package server

// Demonstration for the repaired defect C03/C11 "(*server.ReplicationAckDB).ProcessLeaderPushLock/post:C03.ack.settled-stays":
// a LOCK with the require-ack flag whose record is still queued for the append file when its wait time-out fires is answered
// TIMEOUT (the hold is rolled back, ackCount = 0xff). When the stalled record was processed afterwards, the acknowledgement
// table overwrote ackCount and re-armed the request; the unlock record queued by the time-out then reached DoAckLock and the
// same request id was answered a second time, LOCKED_ERROR after TIMEOUT. (Scenario found by a sub-agent writing seeded changes;
// the append-file lock is held across the sweep to force the order.) Fails before 5492167, passes after.
// Run on a scratch copy:  tools/run_in_scratch.sh findings/C03_require_ack_timeout_double_reply_test.go TestFindingC03RequireAckTimeoutThenStalledPush

import (
	"fmt"
	"os"
	"sync"
	"testing"
	"time"

	"github.com/jessevdk/go-flags"
	"github.com/snower/slock/protocol"
)

// C03 demonstration 2.
//
// A LOCK with the require-ack timeout flag is granted only once the AOF has
// acknowledged it; the ack handler (LockDB.DoAckLock) then sends the one terminal
// SUCCED reply. Later the timeout sweeper reaches the wait deadline the request
// carried. The request was answered already, so nothing more may be sent under
// its RequestId by the timeout path.

type findC03ackReply struct {
	requestId   [16]byte
	commandType uint8
	result      uint8
}

type findC03ackRecorder struct {
	glock   sync.Mutex
	replies []findC03ackReply
}

func (self *findC03ackRecorder) callback(_ *MemWaiterServerProtocol, command *protocol.LockCommand, result uint8, _ uint16, _ uint8, _ []byte) error {
	self.glock.Lock()
	self.replies = append(self.replies, findC03ackReply{command.RequestId, command.CommandType, result})
	self.glock.Unlock()
	return nil
}

func (self *findC03ackRecorder) snapshot() []findC03ackReply {
	self.glock.Lock()
	defer self.glock.Unlock()
	return append([]findC03ackReply{}, self.replies...)
}

func findC03ackId(tag byte, n byte) [16]byte {
	return [16]byte{'z', 'z', 'd', '2', tag, n, 0, 0, 0, 0, 0, 0, 0, 0, 0, 1}
}

// run the per-second timeout sweeper over every wheel slot with a clock far in the future
func findC03ackSweepTimeOut(db *LockDB, glockIndex uint16) {
	farFuture := db.currentTime + 1000000
	queues := make([]*LockQueue, 5)
	for pass := 0; pass < 3; pass++ {
		base := db.checkTimeoutTime
		for checkTime := base; checkTime < base+TIMEOUT_QUEUE_LENGTH; checkTime++ {
			db.checkTimeTimeOut(checkTime, farFuture, glockIndex, queues)
		}
	}
}

func TestFindingC03RequireAckTimeoutThenStalledPush(t *testing.T) {
	dataDir, err := os.MkdirTemp("", "findC03ack")
	if err != nil {
		t.Fatalf("temp dir: %v", err)
	}
	defer os.RemoveAll(dataDir)

	serverConfig := &ServerConfig{}
	if _, err = flags.NewParser(serverConfig, flags.Default).ParseArgs([]string{}); err != nil {
		t.Fatalf("config: %v", err)
	}
	serverConfig.DataDir = dataDir
	serverConfig.DBConcurrent = 1
	serverConfig.DBFastKeyCount = 64
	serverConfig.LogLevel = "ERROR"
	logger, _ := InitLogger(serverConfig)
	slock := NewSLock(serverConfig, logger)
	if err = slock.initLeader(); err != nil {
		t.Fatalf("init leader: %v", err)
	}
	db := slock.GetOrNewDB(0)
	defer func() {
		db.Close()
		slock.aof.Close()
	}()

	recorder := &findC03ackRecorder{}
	client := NewMemWaiterServerProtocol(slock)
	_ = client.SetResultCallback(recorder.callback)

	lockKey, lockId, r1 := findC03ackId('k', 1), findC03ackId('l', 1), findC03ackId('r', 1)
	command := &protocol.LockCommand{
		Command:     protocol.Command{Magic: protocol.MAGIC, Version: protocol.VERSION, CommandType: protocol.COMMAND_LOCK, RequestId: r1},
		DbId:        0,
		LockId:      lockId,
		LockKey:     lockKey,
		TimeoutFlag: protocol.TIMEOUT_FLAG_REQUIRE_ACKED,
		Timeout:     30,
		Expried:     50,
		Count:       0,
		Rcount:      0,
	}
	slock.aof.aofGlock.Lock()
	_ = client.ProcessLockCommand(command)
	time.Sleep(300 * time.Millisecond)
	lockManager := db.GetLockManager(command)
	findC03ackSweepTimeOut(db, lockManager.glockIndex)
	t.Logf("after sweep: %v", recorder.snapshot())
	slock.aof.aofGlock.Unlock()
	time.Sleep(1500 * time.Millisecond)
	t.Logf("after aof resumed: %v", recorder.snapshot())
	if len(recorder.snapshot()) != 1 {
		t.Fatalf("double reply: %v %v", fmt.Sprint(len(recorder.snapshot())), recorder.snapshot())
	}
}
