package server

// Demonstration for the repaired defect C09 "(*server.ReplicationClient).InitSync/post:C09.sync.incomplete-restarts" (reported with this probe by
// a sub-agent writing seeded changes; reproduced and put under the clause here): a follower that starts a FULL transfer resets its log and its
// databases, answers "started", stores the transfer's END boundary as its own position and only then receives the files. When the connection
// was cut before the files had arrived, the next attempt asked to RESUME from that boundary: the leader found it in its ring and streamed only
// what followed, so the whole file content never reached the already flushed follower, which carried on as a "synced" follower with an almost
// empty state. With the repair an incomplete transfer leaves no position behind and the next attempt starts over.
// Run on a scratch copy:  tools/run_in_scratch.sh findings/C09_sync_cut_resumes_at_boundary_test.go TestFindingC09SyncCutResumesAtBoundary


import (
	"io"
	"net"
	"testing"
	"time"

	"github.com/jessevdk/go-flags"
	"github.com/snower/slock/client"
	"github.com/snower/slock/protocol"
	"github.com/snower/slock/protocol/protobuf"
	"google.golang.org/protobuf/proto"
)

func TestFindingC09SyncCutResumesAtBoundary(t *testing.T) {
	cfg := &ServerConfig{}
	_, _ = flags.NewParser(cfg, flags.Default).ParseArgs([]string{})
	cfg.DataDir = t.TempDir()
	cfg.DBConcurrent = 1
	cfg.DBFastKeyCount = 64
	logger, _ := InitLogger(cfg)
	s := NewSLock(cfg, logger)
	_, _ = s.aof.Init()
	s.state = STATE_SYNC
	db := s.GetOrNewDB(0)
	manager := s.replicationManager
	manager.leaderAddress = "pipe"
	manager.isLeader = false
	defer func() { s.aof.Close(); db.Close() }()

	channel := NewReplicationClient(manager)
	manager.clientChannel = channel
	target := NewAofLock()
	target.AofIndex, target.AofOffset, target.CommandTime = 3, 3, uint64(time.Now().Unix())
	targetId := FormatAofId(target.GetAofId())

	readSync := func(conn net.Conn) (*protocol.CallCommand, string) {
		buf := make([]byte, 64)
		if _, err := io.ReadFull(conn, buf); err != nil {
			return nil, "ERR"
		}
		command := &protocol.CallCommand{}
		_ = command.Decode(buf)
		data := make([]byte, command.ContentLen)
		_, _ = io.ReadFull(conn, data)
		request := protobuf.SyncRequest{}
		_ = proto.Unmarshal(data, &request)
		return command, request.AofId
	}

	// connection 1: full sync accepted, connection cut before the first file record
	f1, l1 := net.Pipe()
	channel.stream = client.NewStream(f1)
	channel.protocol = client.NewBinaryClientProtocol(channel.stream)
	go func() {
		command, _ := readSync(l1)
		data, _ := proto.Marshal(&protobuf.SyncResponse{AofId: targetId})
		result := protocol.NewCallResultCommand(command, 0, "", data)
		buf := make([]byte, 64)
		_ = result.Encode(buf)
		_, _ = l1.Write(buf)
		_, _ = l1.Write(data)
		_, _ = io.ReadFull(l1, buf) // started
		_ = l1.Close()             // cut
	}()
	err := channel.InitSync()
	t.Logf("first InitSync: %v, follower position now %s", err, FormatAofId(channel.currentAofId))
	_ = f1.Close()

	// connection 2: what does the follower ask for?
	f2, l2 := net.Pipe()
	defer f2.Close()
	defer l2.Close()
	channel.stream = client.NewStream(f2)
	channel.protocol = client.NewBinaryClientProtocol(channel.stream)
	asked := make(chan string, 1)
	go func() {
		_, aofId := readSync(l2)
		asked <- aofId
		_ = l2.Close()
	}()
	_ = channel.InitSync()
	aofId := <-asked
	if aofId != "" {
		t.Errorf("after a cut with ZERO records received the follower asks to resume from %s (the transfer's end boundary) instead of starting over", aofId)
	}
}
