package protocol

// Demonstration for a repaired defect of C06/C05: "(*protocol.TextCommandConverter).ConvertArgs2Flag/backedge/loop#1:C06.text.px-unit/edge1"
// and "...:C05.text.ptx-unit/edge1" (first reported by a sub-agent of seeding round 5). The text options PX (expiry, milliseconds)
// and PTX (wait time-out, milliseconds) between 3001 and 65535000 were stored as uint16(ms) with no unit flag: the engine took the
// number for seconds, truncated modulo 65536 (PX 5000 held the key for 5000 s, PX 70000 for 4464 s, PTX 65536 waited 0 s). PTX
// beyond 65535 s also rounded the minutes down whenever the whole seconds were a multiple of 60 (PTX 65580500 waited 500 ms less
// than asked). With the repair both are rounded up to whole seconds / minutes like EX and TX.
// Run on a scratch copy (package protocol):  cp findings/C06_text_px_ptx_unit_test.go <scratch>/protocol/zz_test.go; go test -run TestFindingC06TextMillisecondOptions ./protocol

import "testing"

func TestFindingC06TextMillisecondOptions(t *testing.T) {
	unit := func(flag uint16) int64 {
		if flag&0x0400 != 0 {
			return 1
		}
		if flag&0x0040 != 0 {
			return 60000
		}
		return 1000
	}
	converter := &TextCommandConverter{}
	for _, ms := range []string{"1", "3000", "3001", "5000", "65535", "65536", "70000", "65535000", "65535001", "65580500", "120000000"} {
		var want int64
		for _, c := range ms {
			want = want*10 + int64(c-'0')
		}
		lockCommand := &LockCommand{}
		if err := converter.ConvertArgs2Flag(lockCommand, []string{"PX", ms}); err != nil {
			t.Fatal(err)
		}
		got, u := int64(lockCommand.Expried)*unit(lockCommand.ExpriedFlag), unit(lockCommand.ExpriedFlag)
		if got < want || got >= want+u {
			t.Errorf("PX %s: the command asks for an expiry of %d ms (value %d, unit %d ms)", ms, got, lockCommand.Expried, u)
		}
		lockCommand = &LockCommand{}
		if err := converter.ConvertArgs2Flag(lockCommand, []string{"PTX", ms}); err != nil {
			t.Fatal(err)
		}
		got, u = int64(lockCommand.Timeout)*unit(lockCommand.TimeoutFlag), unit(lockCommand.TimeoutFlag)
		if got < want || got >= want+u {
			t.Errorf("PTX %s: the command asks for a time-out of %d ms (value %d, unit %d ms)", ms, got, lockCommand.Timeout, u)
		}
	}
}
