// Demonstration for the recorded finding C10 "(*server.LockDB).wakeUpWaitLock/site/AddLock#1:C10.wake.leader-only":
// a node that was leader has a request queued behind a hold; the node is demoted to follower; the leader's stream
// then releases the hold on the follower (an UNLOCK record, flag from-aof). The wake pass that follows the release
// has no role check: the follower grants the queued request on its own - it answers the waiting client SUCCED and
// installs the waiter as holder in its own table although no record from the leader says so (C10: "a node that is
// not the leader never grants ... anything on its own in answer to a client; a follower's holds change only by
// applying the leader's stream").
// Belongs in server/ (in-package). Run on a scratch copy:
//   tools/run_in_scratch.sh findings/C10_demoted_node_grants_waiter_test.go TestFindingC10DemotedNodeGrantsWaiter
package server

import (
	"sync"
	"testing"
	"time"

	"github.com/jessevdk/go-flags"
	"github.com/snower/slock/protocol"
)

func TestFindingC10DemotedNodeGrantsWaiter(t *testing.T) {
	serverConfig := &ServerConfig{}
	if _, err := flags.NewParser(serverConfig, flags.Default).ParseArgs([]string{}); err != nil {
		t.Fatal(err)
	}
	logger, _ := InitLogger(serverConfig)
	slock := NewSLock(serverConfig, logger)
	slock.state = STATE_LEADER
	db := slock.GetOrNewDB(0)
	sp := NewMemWaiterServerProtocol(slock)
	var mu sync.Mutex
	replies := map[[16]byte][]uint8{}
	_ = sp.SetResultCallback(func(_ *MemWaiterServerProtocol, command *protocol.LockCommand, result uint8, _ uint16, _ uint8, _ []byte) error {
		mu.Lock()
		replies[command.RequestId] = append(replies[command.RequestId], result)
		mu.Unlock()
		return nil
	})
	mk := func(commandType uint8, id byte) *protocol.LockCommand {
		c := &protocol.LockCommand{}
		c.Magic, c.Version, c.CommandType, c.RequestId = protocol.MAGIC, protocol.VERSION, commandType, protocol.GenRequestId()
		c.LockKey = [16]byte{'d', 'e', 'm', 'o', 't', 'e'}
		c.LockId = [16]byte{'i', 'd', id}
		c.Timeout, c.Expried = 30, 60
		return c
	}
	_ = db.Lock(sp, mk(protocol.COMMAND_LOCK, '1'), 0)
	w := mk(protocol.COMMAND_LOCK, '2')
	wReq := w.RequestId
	_ = db.Lock(sp, w, 0) // queued behind id1

	// the role change, as SLock.updateState performs it for this database
	for i := uint16(0); i < db.managerMaxGlocks; i++ {
		db.managerGlocks[i].Lock()
	}
	slock.state = STATE_FOLLOWER
	db.status = STATE_FOLLOWER
	for i := uint16(0); i < db.managerMaxGlocks; i++ {
		db.managerGlocks[i].Unlock()
	}

	// the leader's stream releases id1 on this follower
	u := mk(protocol.COMMAND_UNLOCK, '1')
	u.Flag = protocol.UNLOCK_FLAG_FROM_AOF
	_ = db.UnLock(sp, u, protocol.UNLOCK_FLAG_FROM_AOF)
	time.Sleep(100 * time.Millisecond)
	mu.Lock()
	defer mu.Unlock()
	for _, r := range replies[wReq] {
		if r == protocol.RESULT_SUCCED {
			m := db.GetLockManager(w)
			locked := uint32(0)
			if m != nil {
				locked = m.locked
			}
			t.Fatalf("C10: the follower granted the queued request on its own (replies %v, holds on the key in the follower's table: %d)", replies[wReq], locked)
		}
	}
}
