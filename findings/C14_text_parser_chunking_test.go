package protocol

// Demonstration for the repaired defect C14 "(*protocol.TextParser).ParseRequest/post:C14.parser.carry":
// when an argument body arrives in three or more reads (…"abcd" | "efghij" | "\r\n"), the parser set the
// carried byte count to the size of the last piece instead of adding it, so the next call believed that
// bytes of the argument were still missing and swallowed the terminating CRLF and the head of the next
// command into the argument. The result of parsing therefore depended on how TCP split the stream.
// Run on a scratch copy (package protocol):
//   cp findings/C14_text_parser_chunking_test.go <scratch>/protocol/zz_scratch_test.go && go test -run TestFindingC14TextParserChunking ./protocol

import (
	"reflect"
	"testing"
)

func parseChunks(chunks ...string) []string {
	p := NewTextParser(make([]byte, 1024), make([]byte, 1024))
	for _, c := range chunks {
		n := copy(p.GetReadBuf(), c)
		p.BufferUpdate(n)
		for !p.IsBufferEnd() {
			if err := p.ParseRequest(); err != nil {
				return []string{"error: " + err.Error()}
			}
			if p.IsParseFinish() {
				return append([]string{}, p.GetArgs()...)
			}
		}
	}
	return append([]string{"incomplete"}, p.GetArgs()...)
}

func TestFindingC14TextParserChunking(t *testing.T) {
	want := []string{"GET", "abcdefghij"}
	for _, chunks := range [][]string{
		{"*2\r\n$3\r\nGET\r\n$10\r\nabcdefghij\r\n"},
		{"*2\r\n$3\r\nGET\r\n$10\r\nabcd", "efghij\r\n"},
		{"*2\r\n$3\r\nGET\r\n$10\r\nabcd", "efghij", "\r\n"},
		{"*2\r\n$3\r\nGET\r\n$10\r\nab", "cd", "efghij", "\r", "\n"},
	} {
		if got := parseChunks(chunks...); !reflect.DeepEqual(got, want) {
			t.Errorf("chunks %q parsed as %q, want %q", chunks, got, want)
		}
	}
}
