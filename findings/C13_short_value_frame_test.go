package server

// Demonstration for the repaired defect C13 "(*server.BinaryServerProtocol).ProcessParseLockData/pre@call/
// NewLockCommandDataFromOriginBytes:C13.frame": a LOCK request that announces a value (flag 0x02) followed
// by a value frame of length 0 or 1 - ten bytes a client can send - made the server index past the end of
// the frame while building the LockCommandData. Nothing on the connection goroutine recovers, so the panic
// ends the server process. With the fix the request is refused with an error and only that connection closes.
// Run on a scratch copy:  tools/run_in_scratch.sh findings/C13_short_value_frame_test.go TestFindingC13ShortValueFrame

import (
	"net"
	"testing"
	"time"

	"github.com/jessevdk/go-flags"
	"github.com/snower/slock/protocol"
)

func TestFindingC13ShortValueFrame(t *testing.T) {
	serverConfig := &ServerConfig{}
	if _, err := flags.NewParser(serverConfig, flags.Default).ParseArgs([]string{}); err != nil {
		t.Fatal(err)
	}
	logger, _ := InitLogger(serverConfig)
	slock := NewSLock(serverConfig, logger)
	slock.state = STATE_LEADER
	for _, frameLen := range []byte{0, 1} {
		client, server := net.Pipe()
		sp := NewBinaryServerProtocol(slock, NewStream(server))
		done := make(chan interface{}, 1)
		go func() {
			defer func() { done <- recover() }()
			_ = sp.Process()
		}()
		// a well-formed 64-byte LOCK frame announcing a value, then a value frame of length frameLen
		cmd := protocol.NewLockCommand(0, protocol.GenLockId(), protocol.GenLockId(), 1, 1, 0)
		cmd.Flag |= protocol.LOCK_FLAG_CONTAINS_DATA
		buf := make([]byte, 64)
		_ = cmd.Encode(buf)
		frame := append(buf, frameLen, 0, 0, 0)
		frame = append(frame, make([]byte, frameLen)...)
		_ = client.SetDeadline(time.Now().Add(2 * time.Second))
		_, _ = client.Write(frame)
		_ = client.Close()
		select {
		case r := <-done:
			if r != nil {
				t.Errorf("value frame of length %d: the connection goroutine panicked: %v", frameLen, r)
			}
		case <-time.After(3 * time.Second):
			t.Errorf("value frame of length %d: Process did not return", frameLen)
		}
	}
}

// the same defect one level down: a PIPELINE value whose entry is shorter than a frame header, and an
// EXECUTE value whose nested command carries a 1-byte value frame (fix commits 2f9ebcb and 2d35cff)
func TestFindingC13ShortNestedFrames(t *testing.T) {
	testWithLockDB(t, func(db *LockDB) {
		run := func(name string, frame []byte) {
			defer func() {
				if r := recover(); r != nil {
					t.Errorf("%s: panic %v", name, r)
				}
			}()
			lockCommand := protocol.NewLockCommand(db.dbId, protocol.GenLockId(), protocol.GenLockId(), 10, 10, 0)
			lockCommand.Data = protocol.NewLockCommandDataFromOriginBytes(frame)
			lockManager := db.GetOrNewLockManager(lockCommand)
			lock := lockManager.GetOrNewLock(defaultServerProtocol, lockCommand)
			lockManager.ProcessLockData(lockCommand, lock, false)
		}
		// PIPELINE (op 6) whose only entry announces a 1-byte frame
		run("pipeline entry of length 1", []byte{7, 0, 0, 0, protocol.LOCK_DATA_COMMAND_TYPE_PIPELINE, 0, 1, 0, 0, 0, 9})
		// PIPELINE with three stray trailing bytes
		run("pipeline with a 3-byte tail", []byte{5, 0, 0, 0, protocol.LOCK_DATA_COMMAND_TYPE_PIPELINE, 0, 1, 2, 3})
	})
	nested := &protocol.LockCommand{}
	inner := protocol.NewLockCommand(0, protocol.GenLockId(), protocol.GenLockId(), 1, 1, 0)
	inner.Flag |= protocol.LOCK_FLAG_CONTAINS_DATA
	buf := make([]byte, 64)
	_ = inner.Encode(buf)
	value := append([]byte{0, 0, 0, 0, protocol.LOCK_DATA_COMMAND_TYPE_EXECUTE, 0}, buf...)
	value = append(value, 1, 0, 0, 0, 9) // nested value frame of length 1
	func() {
		defer func() {
			if r := recover(); r != nil {
				t.Errorf("nested 1-byte value frame: panic %v", r)
			}
		}()
		_ = protocol.NewLockCommandDataFromOriginBytes(value).DecodeLockCommand(nested)
	}()
}
