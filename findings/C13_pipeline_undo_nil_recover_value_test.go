package server

// Demonstration for a repaired defect of C13/C11: "safe/(*server.LockManager).ProcessRecoverLockData/typeassert:recoverValue.(int64)"
// (and the .(uint64) / .([]byte) siblings). A require-ack LOCK whose value frame is a PIPELINE saves, for the undo, the value from
// before the pipeline and NO per-operation undo datum (SaveRecoverData(currentLockData, nil) after the last step), while the key's
// value keeps the type of the last step (INCR, APPEND, SHIFT or PUSH). When the acknowledgement fails or times out,
// ProcessRecoverLockData switched on that type and asserted the missing datum's type: recoverValue.(int64) on a nil interface
// panics in the acknowledgement / sweeper goroutine and takes the server down - reachable with client bytes alone (first
// reported by the sub-agents of seeding round 5). With the repair the undo of such a hold restores the value from before the
// pipeline, which is what the pipeline saved.
// Run on a scratch copy:  tools/run_in_scratch.sh findings/C13_pipeline_undo_nil_recover_value_test.go TestFindingC13PipelineUndo

import (
	"testing"

	"github.com/snower/slock/protocol"
)

func TestFindingC13PipelineUndo(t *testing.T) {
	steps := map[string][]*protocol.LockCommandData{
		"INCR":   {protocol.NewLockCommandDataIncrData(2)},
		"APPEND": {protocol.NewLockCommandDataAppendData([]byte("xy"))},
		"SHIFT":  {protocol.NewLockCommandDataShiftData(1)},
		"PUSH":   {protocol.NewLockCommandDataPushData([]byte("xy"))},
	}
	first := map[string]*protocol.LockCommandData{
		"INCR":   protocol.NewLockCommandDataIncrData(5),
		"APPEND": protocol.NewLockCommandDataSetString("abc"),
		"SHIFT":  protocol.NewLockCommandDataSetString("abc"),
		"PUSH":   protocol.NewLockCommandDataPushData([]byte("ab")),
	}
	for name, pipeline := range steps {
		name, pipeline := name, pipeline
		testWithLockDB(t, func(db *LockDB) {
			lockKey := protocol.GenLockId()
			lockCommand := protocol.NewLockCommand(db.dbId, lockKey, protocol.GenLockId(), 10, 10, 0)
			lockCommand.Data = first[name]
			lockManager := db.GetOrNewLockManager(lockCommand)
			lock := lockManager.GetOrNewLock(defaultServerProtocol, lockCommand)
			lockManager.ProcessLockData(lockCommand, lock, false)
			lockManager.FreeLock(lock)
			before := append([]byte{}, lockManager.currentData.data...)

			lockCommand = protocol.NewLockCommand(db.dbId, lockKey, protocol.GenLockId(), 10, 10, 0)
			lockCommand.Data = protocol.NewLockCommandDataPipelineData(pipeline)
			lock = lockManager.GetOrNewLock(defaultServerProtocol, lockCommand)
			lockManager.ProcessLockData(lockCommand, lock, true)
			func() {
				defer func() {
					if r := recover(); r != nil {
						t.Errorf("pipeline ending in %s: the undo of the unacknowledged hold panicked: %v", name, r)
					}
				}()
				lockManager.ProcessRecoverLockData(lock)
			}()
			if lockManager.currentData == nil || string(lockManager.currentData.data) != string(before) {
				t.Errorf("pipeline ending in %s: value after the undo differs from the value before the pipeline", name)
			}
		})
	}
}
