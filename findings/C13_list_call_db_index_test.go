package server

// Demonstration for the repaired defect C13 "safe/(*server.BinaryServerProtocol).commandHandleListLockCommand/index:
// self.slock.dbs[request.DbId]" (and LIST_LOCKED, LIST_WAIT): the CALL methods LIST_LOCK / LIST_LOCKED / LIST_WAIT take
// the database number from a protobuf uint32 and indexed the 256-entry database table with it. A 64-byte CALL frame
// plus a three-byte protobuf body naming database 300 ended the server process.
// Run on a scratch copy:  tools/run_in_scratch.sh findings/C13_list_call_db_index_test.go TestFindingC13ListCallDbIndex

import (
	"net"
	"testing"
	"time"

	"github.com/jessevdk/go-flags"
	"github.com/snower/slock/protocol"
)

func TestFindingC13ListCallDbIndex(t *testing.T) {
	serverConfig := &ServerConfig{}
	if _, err := flags.NewParser(serverConfig, flags.Default).ParseArgs([]string{}); err != nil {
		t.Fatal(err)
	}
	logger, _ := InitLogger(serverConfig)
	slock := NewSLock(serverConfig, logger)
	slock.state = STATE_LEADER
	for _, method := range []string{"LIST_LOCK", "LIST_LOCKED", "LIST_WAIT"} {
		client, server := net.Pipe()
		sp := NewBinaryServerProtocol(slock, NewStream(server))
		done := make(chan interface{}, 1)
		go func() {
			defer func() { done <- recover() }()
			_ = sp.Process()
		}()
		go func() {
			buf := make([]byte, 4096)
			for {
				if _, err := client.Read(buf); err != nil {
					return
				}
			}
		}()
		body := []byte{0x08, 0xac, 0x02} // protobuf: field 1 (db_id), varint 300
		call := protocol.NewCallCommand(method, body)
		buf := make([]byte, 64)
		_ = call.Encode(buf)
		_ = client.SetDeadline(time.Now().Add(time.Second))
		_, _ = client.Write(append(buf, body...))
		time.Sleep(50 * time.Millisecond)
		_ = client.Close()
		select {
		case r := <-done:
			if r != nil {
				t.Errorf("%s for database 300: the connection goroutine panicked: %v", method, r)
			}
		case <-time.After(3 * time.Second):
			t.Errorf("%s: Process did not return", method)
		}
	}
}
