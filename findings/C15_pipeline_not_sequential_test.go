package server

// Demonstration for the recorded finding C15 "(*server.LockManager).ProcessLockData/site/ProcessLockData#1:C15.op.pipeline-sequential"
// (reported by a sub-agent writing seeded changes; reproduced and put under the clause here): a PIPELINE value operation applies its
// sub-operations to the key's value. In front of every sub-operation that is not EXECUTE the code sets the value back to the one from
// before the pipeline (the guard compares the request's command type with the value-operation constant PIPELINE and is always true), so
// only the last sub-operation takes effect: [APPEND "a", APPEND "b"] on an empty key leaves "b", a sequential interpreter leaves "ab";
// [INCR 1, INCR 1] adds 1.
// Not repaired: whether the reset is a slip or an intended "last one wins" could not be decided from the code; removing it changes what
// every pipeline stores.
// Run on a scratch copy:  tools/run_in_scratch.sh findings/C15_pipeline_not_sequential_test.go TestFindingC15PipelineNotSequential

import (
	"testing"

	"github.com/snower/slock/protocol"
)

func TestFindingC15PipelineNotSequential(t *testing.T) {
	testWithLockDB(t, func(db *LockDB) {
		p := NewMemWaiterServerProtocol(db.slock)
		defer p.Close()
		_ = p.SetResultCallback(func(_ *MemWaiterServerProtocol, _ *protocol.LockCommand, _ uint8, _ uint16, _ uint8, _ []byte) error { return nil })
		lockKey := protocol.GenLockId()
		c := protocol.NewLockCommand(db.dbId, lockKey, protocol.GenLockId(), 0, 60, 0)
		c.Flag |= protocol.LOCK_FLAG_CONTAINS_DATA
		c.Data = protocol.NewLockCommandDataPipelineData([]*protocol.LockCommandData{
			protocol.NewLockCommandDataAppendString("a"),
			protocol.NewLockCommandDataAppendString("b"),
		})
		_ = db.Lock(p, c, 0)
		lockManager := db.GetLockManager(c)
		if lockManager == nil || lockManager.GetLockData() == nil {
			t.Fatalf("no value after the pipeline")
		}
		if got := protocol.NewLockResultCommandDataFromOriginBytes(lockManager.GetLockData()).GetStringValue(); got != "ab" {
			t.Errorf("pipeline [APPEND a, APPEND b] on an empty key left %q, a sequential interpreter leaves \"ab\"", got)
		}
		u := protocol.NewLockCommand(db.dbId, lockKey, c.LockId, 0, 0, 0)
		u.CommandType = protocol.COMMAND_UNLOCK
		_ = db.UnLock(p, u, 0)
	})
}
