package server

// Demonstration for the repaired defect C18 "(*server.BinaryServerProtocol).ProcessCommad/post:C18.admin.session-closed" (reported with this
// scenario by a sub-agent writing seeded changes; reproduced and put under the clause here): the binary ADMIN command opens a nested text
// session on the same connection. When that session ended, the nested protocol object was only marked closed: its wills never ran, its
// session stayed registered and its parked reply routes were never repointed. A client that sends ADMIN, then `LOCK key WILL 1`, then
// disconnects, left `key` unlocked and one protocol session behind. The repair ends the nested session with Close (the connection itself,
// which the outer protocol still owns, is detached first). Same in the text protocol's ADMIN case.
// Run on a scratch copy:  tools/run_in_scratch.sh findings/C18_admin_session_will_test.go TestFindingC18AdminSessionWill

import (
	"bufio"
	"io"
	"net"
	"strings"
	"testing"
	"time"

	"github.com/jessevdk/go-flags"
	"github.com/snower/slock/protocol"
)

func findC18AdminSLock(t *testing.T) (*SLock, *Server, *LockDB) {
	serverConfig := &ServerConfig{}
	parse := flags.NewParser(serverConfig, flags.Default)
	if _, err := parse.ParseArgs([]string{}); err != nil {
		t.Fatalf("config parse fail %v", err)
	}
	serverConfig.DataDir = t.TempDir()
	serverConfig.DBConcurrent = 1
	serverConfig.DBFastKeyCount = 64
	logger, _ := InitLogger(serverConfig)
	slock := NewSLock(serverConfig, logger)
	slock.state = STATE_LEADER
	server := NewServer(slock)
	db := slock.GetOrNewDB(0)
	db.status = STATE_LEADER
	return slock, server, db
}

func findC18AdminHeld(t *testing.T, slock *SLock, lockKey string) bool {
	results := make([]uint8, 0)
	waiter := NewMemWaiterServerProtocol(slock)
	defer waiter.Close()
	_ = waiter.SetResultCallback(func(_ *MemWaiterServerProtocol, _ *protocol.LockCommand, result uint8, _ uint16, _ uint8, _ []byte) error {
		results = append(results, result)
		return nil
	})
	lockId := protocol.GenLockId()
	probe := &protocol.LockCommand{Command: protocol.Command{Magic: protocol.MAGIC, Version: protocol.VERSION, CommandType: protocol.COMMAND_LOCK,
		RequestId: protocol.GenRequestId()}, DbId: 0, LockId: lockId, Timeout: 0, Expried: 30}
	copy(probe.LockKey[:], lockKey)
	_ = waiter.ProcessLockCommand(probe)
	if results[0] == protocol.RESULT_TIMEOUT {
		return true
	}
	unlock := &protocol.LockCommand{Command: protocol.Command{Magic: protocol.MAGIC, Version: protocol.VERSION, CommandType: protocol.COMMAND_UNLOCK,
		RequestId: protocol.GenRequestId()}, DbId: 0, LockId: lockId}
	copy(unlock.LockKey[:], lockKey)
	_ = waiter.ProcessLockCommand(unlock)
	return false
}

// Probe A: will registered in the text session opened by the binary ADMIN command
func TestFindingC18AdminSessionWill(t *testing.T) {
	slock, server, db := findC18AdminSLock(t)
	defer db.Close()
	sessionsBefore := len(slock.protocolSessions)

	serverConn, clientConn := net.Pipe()
	stream := NewStream(serverConn)
	_ = server.addStream(stream)
	handled := make(chan struct{})
	go func() {
		server.handle(stream)
		close(handled)
	}()
	_ = clientConn.SetDeadline(time.Now().Add(20 * time.Second))

	buf := make([]byte, 64)
	_ = protocol.NewAdminCommand(0).Encode(buf)
	if _, err := clientConn.Write(buf); err != nil {
		t.Fatal(err)
	}
	if _, err := io.ReadFull(clientConn, buf); err != nil {
		t.Fatal(err)
	}
	if buf[2] != protocol.COMMAND_ADMIN || buf[19] != protocol.RESULT_SUCCED {
		t.Fatalf("admin result %v", buf[:20])
	}

	key := "will-key-00000AA"
	reader := bufio.NewReader(clientConn)
	req := "*4\r\n$4\r\nLOCK\r\n$16\r\n" + key + "\r\n$4\r\nWILL\r\n$1\r\n1\r\n"
	if _, err := clientConn.Write([]byte(req)); err != nil {
		t.Fatal(err)
	}
	line, err := reader.ReadString('\n')
	if err != nil || strings.TrimSpace(line) != "+OK" {
		t.Fatalf("will reply %q %v", line, err)
	}
	_ = clientConn.Close()
	select {
	case <-handled:
	case <-time.After(20 * time.Second):
		t.Fatalf("handle did not finish")
	}
	if !findC18AdminHeld(t, slock, key) {
		t.Errorf("will registered in ADMIN text session never executed")
	}
	if n := len(slock.protocolSessions); n != sessionsBefore {
		t.Errorf("sessions leaked before %d after %d", sessionsBefore, n)
	}
}

