package server

// Demonstration for the known finding C08 "(*server.AofFile).Open/post:C08.open.aligned":
// an append file whose last record is torn (crash in the middle of a 64-byte record) is reopened for
// append as it is; the records written after the restart are then not aligned to the 64-byte grid, and the
// next restart reconstructs a record from the torn bytes followed by the head of the first new record.
// Run on a scratch copy:  tools/run_in_scratch.sh findings/C08_open_append_misaligned_test.go TestFindingC08OpenAppendMisaligned

import (
	"os"
	"path/filepath"
	"testing"
)

func TestFindingC08OpenAppendMisaligned(t *testing.T) {
	dir := t.TempDir()
	name := filepath.Join(dir, "append.aof.1")
	aof := &Aof{}
	w := NewAofFile(aof, name, os.O_WRONLY, 4096)
	if err := w.Open(); err != nil {
		t.Fatal(err)
	}
	mk := func(key byte, offset uint32) *AofLock {
		l := NewAofLock()
		l.CommandType, l.AofIndex, l.AofOffset = 1, 1, offset
		l.LockKey[0], l.LockId[0] = key, key
		if err := l.Encode(); err != nil {
			t.Fatal(err)
		}
		return l
	}
	for i := 0; i < 2; i++ {
		if err := w.WriteLock(mk(byte('a'+i), uint32(i+1))); err != nil {
			t.Fatal(err)
		}
	}
	_ = w.Flush()
	_ = w.Close()
	// the crash: the second record is cut after 30 of its 64 bytes
	if err := os.Truncate(name, 12+64+30); err != nil {
		t.Fatal(err)
	}
	// restart: the same file is opened for append and one more record is persisted
	w = NewAofFile(aof, name, os.O_WRONLY, 4096)
	if err := w.Open(); err != nil {
		t.Fatal(err)
	}
	if err := w.WriteLock(mk('z', 9)); err != nil {
		t.Fatal(err)
	}
	_ = w.Flush()
	_ = w.Close()
	// second restart: what is recovered?
	r := NewAofFile(aof, name, os.O_RDONLY, 4096)
	if err := r.Open(); err != nil {
		t.Fatal(err)
	}
	var keys []byte
	var offsets []uint32
	lock := NewAofLock()
	for {
		if err := r.ReadLock(lock); err != nil {
			break
		}
		if err := lock.Decode(); err != nil {
			break
		}
		keys = append(keys, lock.LockKey[0])
		offsets = append(offsets, lock.AofOffset)
	}
	_ = r.Close()
	// a clean recovery yields records a and z (the torn b is dropped, z persisted after the restart is kept)
	if len(keys) != 2 || keys[0] != 'a' || keys[1] != 'z' || offsets[1] != 9 {
		t.Fatalf("recovered keys %q offsets %v, want \"az\" [1 9]: a record was reconstructed from the torn tail", keys, offsets)
	}
}
