package server

// Demonstration for the repaired defect C09 "(*server.ReplicationClient).InitSync/post:C09.sync.load-failure-restarts" (reported with this probe by a
// sub-agent of the fifth seeding round; reproduced and put under the clause here): a follower that resumes on a directory whose older file does not load
// resets its log, flushes its databases and zeroes its position - but kept the resume marker (aofLock). On the next connection it asked for a sync from
// scratch, the leader started a full transfer, and the follower took the RESUME branch: no reset, no file phase, the transferred records and the
// end-of-files marker were consumed as live records (append.aof.4294967295 appears, the position becomes ffff..., the directory stops loading).
// With the repair the marker is cleared together with the position.
// Run on a scratch copy:  tools/run_in_scratch.sh findings/C09_load_failure_resumes_test.go TestFindingC09LoadFailureThenFullTransfer

import (
	"io/ioutil"
	"net"
	"os"
	"testing"
	"time"

	"github.com/jessevdk/go-flags"
	"github.com/snower/slock/client"
	"github.com/snower/slock/protocol"
	"github.com/snower/slock/protocol/protobuf"
	"google.golang.org/protobuf/proto"
)

// ---- helpers (prefixed findC09lf to avoid clashes) ----

func findC09lfNewFollower(t *testing.T, dataDir string) *SLock {
	cfg := &ServerConfig{}
	_, err := flags.NewParser(cfg, flags.Default).ParseArgs([]string{})
	if err != nil {
		t.Fatalf("parse config: %v", err)
	}
	cfg.DataDir = dataDir
	cfg.Log = "-"
	cfg.LogLevel = "ERROR"
	logger, _ := InitLogger(cfg)
	slock := NewSLock(cfg, logger)
	if err = slock.initFollower("127.0.0.1:1"); err != nil {
		t.Fatalf("initFollower: %v", err)
	}
	return slock
}

func findC09lfKey(b byte) [16]byte {
	k := [16]byte{}
	for i := 0; i < 16; i++ {
		k[i] = b
	}
	return k
}

// one leader log record (64 bytes) for "LOCK key by lockId", expiring in 600 s
func findC09lfLockRecord(aofIndex uint32, aofOffset uint32, key byte) []byte {
	l := NewAofLock()
	l.CommandType = protocol.COMMAND_LOCK
	l.AofIndex = aofIndex
	l.AofOffset = aofOffset
	l.CommandTime = uint64(time.Now().Unix())
	l.DbId = 0
	l.LockId = findC09lfKey(key + 0x80)
	l.LockKey = findC09lfKey(key)
	l.ExpriedTime = 600
	_ = l.Encode()
	l.buf[0], l.buf[1] = 62, 0
	return l.buf
}

func findC09lfMarker() []byte {
	l := NewAofLock()
	l.CommandType = protocol.COMMAND_INIT
	l.AofIndex = 0xffffffff
	l.AofOffset = 0xffffffff
	l.CommandTime = 0xffffffffffffffff
	_ = l.Encode()
	return l.buf
}

func findC09lfAofId(aofIndex uint32, aofOffset uint32) string {
	l := NewAofLock()
	l.AofIndex = aofIndex
	l.AofOffset = aofOffset
	l.CommandTime = uint64(time.Now().Unix())
	return FormatAofId(l.GetAofId())
}

func findC09lfReadFull(conn net.Conn, n int) ([]byte, error) {
	buf := make([]byte, n)
	rn := 0
	for rn < n {
		nn, err := conn.Read(buf[rn:])
		if err != nil {
			return nil, err
		}
		rn += nn
	}
	return buf, nil
}

// Plays the leader's side of one replication connection by hand:
// answers SYNC with "full transfer up to respAofId", waits for the follower's
// "started" marker, then writes payload byte for byte and closes the connection.
func findC09lfFakeLeader(conn net.Conn, respAofId string, payload []byte, requested chan string) {
	defer conn.Close()
	buf, err := findC09lfReadFull(conn, 64)
	if err != nil {
		requested <- "ERR " + err.Error()
		return
	}
	call := &protocol.CallCommand{}
	_ = call.Decode(buf)
	request := protobuf.SyncRequest{}
	if call.ContentLen > 0 {
		data, derr := findC09lfReadFull(conn, int(call.ContentLen))
		if derr != nil {
			requested <- "ERR " + derr.Error()
			return
		}
		_ = proto.Unmarshal(data, &request)
	}
	requested <- "aofId=" + request.AofId

	if request.AofId != "" {
		respAofId = request.AofId
	}
	data, _ := proto.Marshal(&protobuf.SyncResponse{AofId: respAofId})
	result := protocol.NewCallResultCommand(call, 0, "", data)
	rbuf := make([]byte, 64)
	_ = result.Encode(rbuf)
	if _, err = conn.Write(append(rbuf, data...)); err != nil {
		return
	}
	if _, err = findC09lfReadFull(conn, 64); err != nil { // follower's "started"
		return
	}
	_ = conn.SetWriteDeadline(time.Now().Add(10 * time.Second))
	_, _ = conn.Write(payload)
}

// One pass of the body of ReplicationClient.Run over an already "dialled" connection.
func findC09lfRunOnce(rc *ReplicationClient, conn net.Conn) error {
	rc.glock.Lock()
	rc.stream = client.NewStream(conn)
	rc.protocol = client.NewBinaryClientProtocol(rc.stream)
	rc.glock.Unlock()

	err := rc.InitSync()
	if err == nil {
		_ = rc.Process()
		for _, get := range []func() chan struct{}{
			func() chan struct{} { return rc.appendWaiter },
			func() chan struct{} { return rc.replayWaiter },
			func() chan struct{} { return rc.pushWaiter },
		} {
			rc.glock.Lock()
			waiter := get()
			rc.glock.Unlock()
			if waiter != nil {
				<-waiter
			}
		}
	}
	rc.glock.Lock()
	_ = rc.protocol.Close()
	rc.stream = nil
	rc.protocol = nil
	rc.glock.Unlock()
	return err
}

func findC09lfHeld(slock *SLock, key byte) bool {
	db := slock.GetDB(0)
	if db == nil {
		return false
	}
	command := &protocol.LockCommand{}
	command.CommandType = protocol.COMMAND_LOCK
	command.LockKey = findC09lfKey(key)
	command.LockId = findC09lfKey(key + 0x80)
	lockManager := db.GetLockManager(command)
	if lockManager == nil {
		return false
	}
	lockManager.glock.LowPriorityLock()
	defer lockManager.glock.LowPriorityUnlock()
	if lockManager.lockKey != command.LockKey || lockManager.locked == 0 {
		return false
	}
	return lockManager.GetLockedLock(command) != nil
}


// PROBE (unchanged tree): a follower restarts on a stale directory whose position the leader
// still has, but one of its older files does not load. InitSync wipes the directory and the DB
// and zeroes the position so that the next attempt starts from scratch - but it leaves
// self.aofLock set, so the next InitSync takes the *resume* branch although it asked for (and is
// being sent) a full transfer: no Reset/FlushDB to the leader's position, the file-phase records
// and the end-of-files marker are fed to Process() as if they were live records.
func TestFindingC09LoadFailureThenFullTransfer(t *testing.T) {
	dataDir, err := ioutil.TempDir("", "findC09lf")
	if err != nil {
		t.Fatal(err)
	}
	defer os.RemoveAll(dataDir)

	header := []byte{'S', 'L', 'O', 'C', 'K', 'A', 'O', 'F', 1, 0, 0, 0}
	_ = ioutil.WriteFile(dataDir+"/append.aof.1", []byte("this is not an aof file at all, sorry"), 0644)
	_ = ioutil.WriteFile(dataDir+"/append.aof.1.dat", []byte{}, 0644)
	_ = ioutil.WriteFile(dataDir+"/append.aof.2", append(append([]byte{}, header...), findC09lfLockRecord(2, 1, 5)...), 0644)
	_ = ioutil.WriteFile(dataDir+"/append.aof.2.dat", []byte{}, 0644)

	slock := findC09lfNewFollower(t, dataDir)
	defer func() {
		done := make(chan struct{})
		go func() { slock.Close(); close(done) }()
		select {
		case <-done:
		case <-time.After(10 * time.Second):
		}
	}()
	rc := NewReplicationClient(slock.replicationManager)
	rc.currentAofId = slock.replicationManager.currentAofId // what Run() does first
	if id := FormatAofId(rc.currentAofId); id[:16] != "0000000200000001" {
		t.Fatalf("follower start position %s, want file 2 offset 1", id)
	}

	// connection 1: resume accepted by the leader, follower fails to load its own files
	c1, s1 := net.Pipe()
	req1 := make(chan string, 1)
	go findC09lfFakeLeader(s1, "", []byte{}, req1)
	err1 := findC09lfRunOnce(rc, c1)
	if r := <-req1; r == "aofId=" {
		t.Fatalf("first sync request %q, want resume by id", r)
	}
	if err1 == nil {
		t.Fatalf("first connection: expected the load error")
	}
	t.Logf("first connection error (expected): %v", err1)

	// connection 2: from scratch; leader's log is [(2,1) key5, (2,2) key6]
	payload2 := append([]byte{}, findC09lfLockRecord(2, 1, 5)...)
	payload2 = append(payload2, findC09lfLockRecord(2, 2, 6)...)
	payload2 = append(payload2, findC09lfMarker()...)
	c2, s2 := net.Pipe()
	req2 := make(chan string, 1)
	go findC09lfFakeLeader(s2, findC09lfAofId(2, 3), payload2, req2)
	err2 := findC09lfRunOnce(rc, c2)
	if r := <-req2; r != "aofId=" {
		t.Fatalf("second sync request %q, want empty aofId (from scratch)", r)
	}
	if err2 != nil {
		t.Fatalf("second connection init sync: %v", err2)
	}
	_ = slock.aof.WaitFlushAofChannel()
	time.Sleep(200 * time.Millisecond)

	for _, k := range []byte{5, 6} {
		if !findC09lfHeld(slock, k) {
			t.Errorf("follower after transfer from scratch: key%d not held", k)
		}
	}
	files, _, ferr := slock.aof.FindAofFiles()
	if ferr != nil || len(files) != 1 || files[0] != "append.aof.2" {
		t.Errorf("follower append files after transfer from scratch: %v err=%v, want [append.aof.2]", files, ferr)
	}
	if id := FormatAofId(rc.currentAofId); id[:16] != "0000000200000002" {
		t.Errorf("follower position after transfer from scratch %s, want file 2 offset 2", id)
	}
}
