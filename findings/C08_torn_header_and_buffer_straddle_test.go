package server

// Demonstration for two repaired defects of C08 (found by a sub-agent writing seeded changes, reproduced here at the loader's
// level): "(*server.AofFile).ReadHeader/post:C08.header.torn" and "(*server.AofFile).ReadLock/post:C08.record.torn-tail".
// (1) an append file cut inside its 12-byte header (1..11 bytes) was refused with "File is not AOF FIle" instead of being an
//     empty log: the start failed although nothing but the header was torn;
// (2) a last record cut so that it straddles the reader's 4096-byte buffer (70 records, file cut at 4097..4107) was refused
//     with "Lock Len error": the first read returned the 52 buffered bytes, the second fewer than the 12 missing ones, and that
//     was reported as a format error instead of the end of the log.
// With the repairs both loads succeed and deliver exactly the whole records in front of the cut.
// Run on a scratch copy:  tools/run_in_scratch.sh findings/C08_torn_header_and_buffer_straddle_test.go TestFindingC08Torn

import (
	"os"
	"path/filepath"
	"testing"

	"github.com/jessevdk/go-flags"
)

func findC08Config(t *testing.T) func() {
	saved := Config
	cfg := &ServerConfig{}
	if _, err := flags.NewParser(cfg, flags.Default).ParseArgs([]string{}); err != nil {
		t.Fatal(err)
	}
	Config = cfg
	return func() { Config = saved }
}

func findC08WriteRecords(t *testing.T, aof *Aof, name string, count int) {
	w := NewAofFile(aof, name, os.O_WRONLY, 4096)
	if err := w.Open(); err != nil {
		t.Fatal(err)
	}
	for i := 0; i < count; i++ {
		l := NewAofLock()
		l.CommandType, l.AofIndex, l.AofOffset = 1, 1, uint32(i+1)
		l.ExpriedFlag = 0x4000
		l.LockKey[0], l.LockKey[1] = byte(i), byte(i>>8)
		_ = l.Encode()
		if err := w.WriteLock(l); err != nil {
			t.Fatal(err)
		}
	}
	_ = w.Flush()
	_ = w.Close()
}

func findC08Load(aof *Aof) (int, error) {
	n := 0
	err, _ := aof.LoadAofFiles([]string{"append.aof.1"}, 0, func(string, *AofFile, *AofLock, bool) (bool, error) {
		n++
		return true, nil
	})
	return n, err
}

func TestFindingC08TornHeader(t *testing.T) {
	defer findC08Config(t)()
	for cut := int64(0); cut <= 12; cut++ {
		dir := t.TempDir()
		aof := &Aof{dataDir: dir}
		name := filepath.Join(dir, "append.aof.1")
		findC08WriteRecords(t, aof, name, 3)
		if err := os.Truncate(name, cut); err != nil {
			t.Fatal(err)
		}
		n, err := findC08Load(aof)
		if err != nil || n != 0 {
			t.Errorf("file cut after %d header bytes: load delivered %d records, error %v (want an empty log)", cut, n, err)
		}
	}
}

func TestFindingC08TornRecordAcrossReadBuffer(t *testing.T) {
	defer findC08Config(t)()
	for cut := int64(4090); cut <= 4112; cut++ {
		dir := t.TempDir()
		aof := &Aof{dataDir: dir}
		name := filepath.Join(dir, "append.aof.1")
		findC08WriteRecords(t, aof, name, 70)
		if err := os.Truncate(name, cut); err != nil {
			t.Fatal(err)
		}
		want := int((cut - 12) / 64)
		n, err := findC08Load(aof)
		if err != nil || n != want {
			t.Errorf("file cut at byte %d: load delivered %d records, error %v (want the %d whole records and no error)", cut, n, err, want)
		}
	}
}
