// Demonstration for the repaired defect C11/C03 "(*server.LockDB).UnLock/site/RemoveLock#*:C11.unlock.settled":
// a hold taken with the require-ack flag is pending until a quorum has acknowledged its record; until then an UNLOCK
// naming its LockId is refused with LOCK_ACK_WAITING. The "unlock the oldest hold" variant (unlock flag 0x01 with a
// LockId that matches no hold) skipped that refusal: it released the pending hold and freed its command. The
// original requester was never answered (its reply was later produced from the recycled command object), although
// the property says a require-ack request is answered SUCCED only after the quorum, ERROR otherwise - and a hold the
// requester was never told about had existed and been released in between.
// Belongs in server/ (in-package). Run on a scratch copy:
//   tools/run_in_scratch.sh findings/C11_unlock_first_ack_pending_test.go TestFindingC11UnlockFirstAckPending
package server

import (
	"sync"
	"testing"
	"time"

	"github.com/jessevdk/go-flags"
	"github.com/snower/slock/protocol"
)

func TestFindingC11UnlockFirstAckPending(t *testing.T) {
	serverConfig := &ServerConfig{}
	if _, err := flags.NewParser(serverConfig, flags.Default).ParseArgs([]string{}); err != nil {
		t.Fatal(err)
	}
	logger, _ := InitLogger(serverConfig)
	slock := NewSLock(serverConfig, logger)
	slock.state = STATE_LEADER
	db := slock.GetOrNewDB(0)
	// a quorum of two with no follower connected: the acknowledgement cannot arrive during the test
	slock.replicationManager.GetOrNewAckDB(0).ackCount = 2
	sp := NewMemWaiterServerProtocol(slock)
	var mu sync.Mutex
	replies := map[[16]byte][]uint8{}
	_ = sp.SetResultCallback(func(_ *MemWaiterServerProtocol, command *protocol.LockCommand, result uint8, _ uint16, _ uint8, _ []byte) error {
		mu.Lock()
		replies[command.RequestId] = append(replies[command.RequestId], result)
		mu.Unlock()
		return nil
	})
	mk := func(commandType uint8, id byte) *protocol.LockCommand {
		c := &protocol.LockCommand{}
		c.Magic, c.Version, c.CommandType, c.RequestId = protocol.MAGIC, protocol.VERSION, commandType, protocol.GenRequestId()
		c.LockKey = [16]byte{'a', 'c', 'k', 'k', 'e', 'y'}
		c.LockId = [16]byte{'i', 'd', id}
		c.Timeout, c.Expried = 5, 30
		return c
	}
	l := mk(protocol.COMMAND_LOCK, 'L')
	l.TimeoutFlag = protocol.TIMEOUT_FLAG_REQUIRE_ACKED
	lReq := l.RequestId
	_ = db.Lock(sp, l, 0)
	time.Sleep(200 * time.Millisecond)
	manager := db.GetLockManager(l)
	if manager == nil || manager.locked != 1 || manager.currentLock == nil || manager.currentLock.ackCount == 0xff {
		t.Skipf("the hold is not pending (manager %v): the set-up does not reach the state under test", manager)
	}
	mu.Lock()
	if len(replies[lReq]) != 0 {
		t.Fatalf("the require-ack request was answered %v before any acknowledgement", replies[lReq])
	}
	mu.Unlock()

	u := mk(protocol.COMMAND_UNLOCK, 'X') // a LockId that holds nothing
	u.Flag = protocol.UNLOCK_FLAG_UNLOCK_FIRST_LOCK_WHEN_UNLOCKED
	uReq := u.RequestId
	_ = db.UnLock(sp, u, 0)
	time.Sleep(100 * time.Millisecond)
	mu.Lock()
	defer mu.Unlock()
	if got := replies[uReq]; len(got) != 1 || got[0] != protocol.RESULT_LOCK_ACK_WAITING {
		t.Errorf("unlock-first on a pending hold was answered %v, want [LOCK_ACK_WAITING=%d]", got, protocol.RESULT_LOCK_ACK_WAITING)
	}
	if m := db.GetLockManager(l); m == nil || m.locked != 1 {
		t.Errorf("the pending hold was released by the unlock-first request")
	}
}
