package server

// Demonstration for the repaired defect C18 "(*server.TextServerProtocol).commandHandlerLock/site/Push#1:C18.will.register":
// a text-protocol client registers a will with `LOCK key WILL 1` and is answered +OK. The command was queued with its
// type still COMMAND_WILL_LOCK; when the connection closed, Close handed it to ProcessCommad, which took it for a new
// registration and queued it again - on a fresh queue that nothing drains. The will never ran.
// With the fix the queued command carries the type it is to be executed with, as on the binary protocol.
// Run on a scratch copy:  tools/run_in_scratch.sh findings/C18_text_will_never_runs_test.go TestFindingC18TextWillNeverRuns

import (
	"io"
	"net"
	"testing"
	"time"

	"github.com/jessevdk/go-flags"
	"github.com/snower/slock/protocol"
)

func TestFindingC18TextWillNeverRuns(t *testing.T) {
	serverConfig := &ServerConfig{}
	if _, err := flags.NewParser(serverConfig, flags.Default).ParseArgs([]string{}); err != nil {
		t.Fatal(err)
	}
	logger, _ := InitLogger(serverConfig)
	slock := NewSLock(serverConfig, logger)
	slock.state = STATE_LEADER
	db := slock.GetOrNewDB(0)

	client, server := net.Pipe()
	sp := NewTextServerProtocol(slock, NewStream(server))
	done := make(chan interface{}, 1)
	go func() {
		defer func() { done <- recover() }()
		_ = sp.Process()
		_ = sp.Close() // what Server.handle does when Process returns
	}()

	_ = client.SetDeadline(time.Now().Add(3 * time.Second))
	// six wills: more than the connection's reply channel can park, so Close must drop their replies
	keys := [][16]byte{}
	for i := 0; i < 6; i++ {
		name := "willkey" + string(rune('0'+i))
		if _, err := client.Write([]byte("*4\r\n$4\r\nLOCK\r\n$8\r\n" + name + "\r\n$4\r\nWILL\r\n$1\r\n1\r\n")); err != nil {
			t.Fatal(err)
		}
		reply := make([]byte, 5)
		if _, err := io.ReadFull(client, reply); err != nil || string(reply) != "+OK\r\n" {
			t.Fatalf("registration not acknowledged: %q %v", reply, err)
		}
		key := [16]byte{}
		copy(key[8:], name)
		keys = append(keys, key)
		if lockManager := db.GetLockManager(&protocol.LockCommand{DbId: 0, LockKey: key}); lockManager != nil && lockManager.locked != 0 {
			t.Fatalf("the will ran before the connection ended")
		}
	}
	_ = client.Close()
	select {
	case r := <-done:
		if r != nil {
			t.Fatalf("closing the connection panicked: %v", r)
		}
	case <-time.After(5 * time.Second):
		t.Fatal("Close did not return")
	}
	for i, key := range keys {
		lockManager := db.GetLockManager(&protocol.LockCommand{DbId: 0, LockKey: key})
		if lockManager == nil || lockManager.locked != 1 {
			t.Fatalf("will %d was not executed when the connection ended: manager %v", i, lockManager)
		}
	}
}
