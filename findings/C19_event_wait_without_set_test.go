package server

// Demonstration for the repaired defect C19/C04 "(*server.LockDB).wakeUpWaitLocks/site/wakeUpWaitLock#1:C19.event.wait-until-set" (reported by a
// sub-agent writing seeded changes, who saw it over TCP with the Go client's Event; reproduced here on the engine): a request carrying the
// wait-when-unlocked flag (what a default-clear Event.Wait sends) is queued while the key is FREE and is to be granted when somebody locks the
// key (Event.Set). LockDB.Lock applies that rule, the wake pass did not: it asked doLock only, which admits anything on a free key. So whenever
// a wake pass ran on the free key - another waiter of the event timing out, a cancel - the next waiter was granted although nobody had set the
// event: Event.Wait returned without Set. With the repair the wake pass stops at such a waiter while the key is free.
// Run on a scratch copy:  tools/run_in_scratch.sh findings/C19_event_wait_without_set_test.go TestFindingC19EventWaitWithoutSet

import (
	"testing"

	"github.com/snower/slock/protocol"
)

func TestFindingC19EventWaitWithoutSet(t *testing.T) {
	testWithLockDB(t, func(db *LockDB) {
		results := map[[16]byte]uint8{}
		p := NewMemWaiterServerProtocol(db.slock)
		defer p.Close()
		_ = p.SetResultCallback(func(_ *MemWaiterServerProtocol, c *protocol.LockCommand, result uint8, _ uint16, _ uint8, _ []byte) error {
			results[c.RequestId] = result
			return nil
		})
		eventKey := protocol.GenLockId()
		wait := func(timeout uint16) *protocol.LockCommand {
			c := protocol.NewLockCommand(db.dbId, eventKey, protocol.GenLockId(), timeout, 0, 1) // what Event.Wait sends in default-clear mode
			c.TimeoutFlag |= protocol.TIMEOUT_FLAG_LOCK_WAIT_WHEN_UNLOCK
			_ = db.Lock(p, c, 0)
			return c
		}
		w1 := wait(5)
		w2 := wait(600)
		if len(results) != 0 {
			t.Fatalf("both waiters should be queued on the clear event: %v", results)
		}
		lockManager := db.GetLockManager(w1)
		first := lockManager.GetWaitLock()
		if first == nil || first.command.RequestId != w1.RequestId {
			t.Fatalf("head of the queue is not the first waiter")
		}
		db.doTimeOut(first, false, false) // the first waiter's time-out fires
		if results[w1.RequestId] != protocol.RESULT_TIMEOUT {
			t.Fatalf("first waiter: result %d, want TIMEOUT", results[w1.RequestId])
		}
		if r, answered := results[w2.RequestId]; answered {
			t.Errorf("second waiter was answered %d although nobody set the event (Event.Wait returns without Set)", r)
		}
		// setting the event (a hold on the key) must still release the waiter
		set := protocol.NewLockCommand(db.dbId, eventKey, eventKey, 5, 60, 1)
		_ = db.Lock(p, set, 0)
		if results[set.RequestId] != protocol.RESULT_SUCCED {
			t.Fatalf("set: result %d", results[set.RequestId])
		}
		if r, answered := results[w2.RequestId]; !answered || r != protocol.RESULT_SUCCED {
			t.Errorf("after Set the waiter should be released with SUCCED, got answered=%v result=%d", answered, r)
		}
		u := protocol.NewLockCommand(db.dbId, eventKey, eventKey, 0, 0, 0)
		u.CommandType = protocol.COMMAND_UNLOCK
		_ = db.UnLock(p, u, 0)
	})
}
