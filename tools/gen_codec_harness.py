#!/usr/bin/env python3
# Generates /repo/protocol/zz_verif_harness.go (round-trip harness functions, build tag verif) and the
# C14 codec section of /repo/protocol/zz_verif_contracts.go. The table is the specification transcription:
# wire size of the header, the fields excluded from the value round trip (pointers to trailing data,
# padding, NUL-trimmed strings) and the number of leading bytes that are "defined" (not padding).
TYPES = [
 # name, excluded fields, defined-prefix length
 ("Command",               [], 19),
 ("ResultCommand",         [], 20),
 ("InitCommand",           ["Blank"], 35),
 ("InitResultCommand",     ["Blank"], 21),
 ("LockCommand",           ["Data"], 64),
 ("LockResultCommand",     ["Blank", "Data"], 60),
 ("StateCommand",          ["Blank"], 21),
 ("StateResultCommand",    ["Blank", "SlowKeyCount"], 63),
 ("AdminCommand",          ["Blank"], 20),
 ("AdminResultCommand",    ["Blank"], 20),
 ("PingCommand",           ["Blank"], 19),
 ("PingResultCommand",     ["Blank"], 20),
 ("QuitCommand",           ["Blank"], 19),
 ("QuitResultCommand",     ["Blank"], 20),
 ("CallCommand",           ["MethodName", "Data"], 26),
 ("CallResultCommand",     ["ErrType", "Data"], 27),
 ("LeaderCommand",         ["Blank"], 20),
 ("LeaderResultCommand",   ["Host"], 21),
 ("SubscribeCommand",      ["Blank"], 53),
 ("SubscribeResultCommand",["Blank"], 29),
]
h = ["//go:build verif", "", "package protocol", "",
     "// Harness functions for the verification machinery in /verif: they compose the real Encode/Decode",
     "// methods so that round-trip properties become ordinary postconditions. Never compiled without -tags verif.", ""]
c = []
for name, excl, d in TYPES:
    h += [f"func verifRoundTrip{name}(x *{name}, y *{name}, buf []byte) bool {{",
          "\tif x.Encode(buf) != nil {", "\t\treturn false", "\t}", "\treturn y.Decode(buf) == nil", "}", "",
          f"func verifReencode{name}(x *{name}, in []byte, out []byte) bool {{",
          "\tif x.Decode(in) != nil {", "\t\treturn false", "\t}", "\treturn x.Encode(out) == nil", "}", ""]
    ex = "".join(", " + e for e in excl)
    strpre = ""
    if name == "CallCommand": strpre = " && len(x.MethodName) <= 38"
    if name == "CallResultCommand": strpre = " && len(x.ErrType) <= 37"
    if name == "LeaderResultCommand": strpre = " && len(x.Host) <= 43"
    c += [f"//@ func verifRoundTrip{name}",
          f"//@   requires x != nil && y != nil && x != y && len(buf) >= 64{strpre}",
          f"//@   ensures C14.rt.{name}: result && samefields(x, y{ex})",
          "",
          f"//@ func verifReencode{name}",
          f"//@   requires x != nil && len(in) >= 64 && len(out) >= 64 && arr(in) != arr(out)" + (" && in[20] <= 43" if name=="LeaderResultCommand" else ""),
          f"//@   ensures C14.re.{name}: result && forall(k, 0, {d}, out[k] == in[k])",
          ""]
open("/repo/protocol/zz_verif_harness.go","w").write("\n".join(h))
open("/tmp/codec_contracts.txt","w").write("\n".join(c))
print("ok", len(TYPES))
