#!/bin/sh
# usage: try_mutant.sh <seed> <prop> <function>...   — applies a seeded patch to /repo, verifies the functions under the
# property with the current contracts, reverts. /repo must have no uncommitted changes except contract files (kept).
S=$1; P=$2; shift 2
cd /verif
cp /repo/server/zz_verif_contracts.go /tmp/_c_server.go; cp /repo/protocol/zz_verif_contracts.go /tmp/_c_protocol.go; cp /repo/client/zz_verif_contracts.go /tmp/_c_client.go
git -C /repo apply /verif/seeded/$S/patch.diff || { echo "patch does not apply"; exit 1; }
./bin/slockvc fn -prop $P "$@" 2>&1 | grep -v "warn\|cover/path" | grep "^==\|$P\." | cut -c1-230
git -C /repo checkout -- . ; cp /tmp/_c_server.go /repo/server/zz_verif_contracts.go; cp /tmp/_c_protocol.go /repo/protocol/zz_verif_contracts.go; cp /tmp/_c_client.go /repo/client/zz_verif_contracts.go
