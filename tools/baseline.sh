#!/bin/sh
# runs the repository's own test suite (server + protocol, the 85 stable tests) on a scratch copy of /repo's working tree
export GOFLAGS=-mod=mod GOPROXY=off GOSUMDB=off GOTOOLCHAIN=local
W=$(mktemp -d /tmp/baseline-XXXX); rsync -a --exclude .git /repo/ $W/repo/
cd $W/repo && go test -vet=off -count=1 -timeout 25m -json ./server ./protocol > $W/out.json 2>&1
python3 - $W/out.json <<'PY'
import json,sys
p=f=0; failed=[]
for l in open(sys.argv[1]):
    try: e=json.loads(l)
    except: continue
    if e.get("Test") and e.get("Action")=="pass": p+=1
    if e.get("Test") and e.get("Action")=="fail": f+=1; failed.append(e["Package"]+"::"+e["Test"])
print("tests passed:",p,"failed:",f, failed[:5])
PY
cd /; rm -rf $W
