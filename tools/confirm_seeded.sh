#!/bin/sh
# usage: confirm_seeded.sh <seeded dir>   — confirms in a scratch copy that the patch applies, builds, passes the
# existing suites of ./server and ./protocol, and that the demonstration fails with it and passes without it.
export GOFLAGS=-mod=mod GOPROXY=off GOSUMDB=off GOTOOLCHAIN=local
D="$1"; N=$(basename "$D")
W=$(mktemp -d /tmp/confirm-$N-XXXX)
rsync -a --exclude .git /repo/ $W/repo/
cd $W/repo || exit 2
PKG=$(grep -m1 -o '^package [a-z]*' "$D/demo_test.go" | awk '{print $2}')
[ "$PKG" = "protocol" ] && PD=protocol || PD=server
[ "$PKG" = "client" ] && PD=client
out="$D/confirm.log"; : > $out
patch -p1 --dry-run < "$D/patch.diff" >/dev/null 2>&1 || { echo "PATCH-DOES-NOT-APPLY" | tee -a $out; rm -rf $W; exit 1; }
# baseline: demo passes without the patch
cp "$D/demo_test.go" $PD/zz_demo_seeded_test.go
go test -vet=off -count=1 -timeout 300s -run 'Demo|Seeded|ZZ' ./$PD > $W/without.log 2>&1; R0=$?
patch -p1 -s < "$D/patch.diff"
go build ./... > $W/build.log 2>&1; RB=$?
go test -vet=off -count=1 -timeout 300s -run 'Demo|Seeded|ZZ' ./$PD > $W/with.log 2>&1; R1=$?
rm -f $PD/zz_demo_seeded_test.go
go test -vet=off -count=1 -timeout 600s ./server ./protocol > $W/suite.log 2>&1; RS=$?
echo "demo-without-patch exit=$R0 (want 0); build exit=$RB (want 0); demo-with-patch exit=$R1 (want !=0); suite-with-patch exit=$RS (want 0)" | tee -a $out
tail -5 $W/with.log >> $out
if [ $R0 -eq 0 ] && [ $RB -eq 0 ] && [ $R1 -ne 0 ] && [ $RS -eq 0 ]; then echo "CONFIRMED $N" | tee -a $out; else echo "NOT-CONFIRMED $N" | tee -a $out; fi
cd /; rm -rf $W
