#!/usr/bin/env python3
# debugging aid: split the goal of a dumped obligation script into its top-level conjuncts and try each separately
import re,subprocess,sys
s=open(sys.argv[1]).read()
tmo=sys.argv[2] if len(sys.argv)>2 else '10'
lines=s.split('\n')
idx=max(i for i,l in enumerate(lines) if l.startswith('(assert'))
goal=lines[idx]
def parse(t):
    toks=re.findall(r'\(|\)|[^\s()]+',t)
    def rd(i):
        if toks[i]=='(':
            l=[];i+=1
            while toks[i]!=')':
                x,i=rd(i);l.append(x)
            return l,i+1
        return toks[i],i+1
    return rd(0)[0]
def show(x): return x if isinstance(x,str) else '('+' '.join(show(y) for y in x)+')'
g=parse(goal)
reach=g[1][1]; body=g[1][2][1]
hyps=[]
while isinstance(body,list) and body and body[0]=='=>':
    hyps.append(body[1]); body=body[2]
conj=[]
def flat(x):
    if isinstance(x,list) and x and x[0]=='and':
        for y in x[1:]: flat(y)
    else: conj.append(x)
flat(body)
pre='\n'.join(lines[:idx])
for c in conj:
    q=pre+'\n'+''.join('(assert %s)\n'%show(h) for h in hyps)+'(assert (and %s (not %s)))\n(check-sat)\n'%(show(reach),show(c))
    open('/tmp/split_h.smt2','w').write(q)
    out=subprocess.run(['z3-new','-T:'+tmo,'/tmp/split_h.smt2'],capture_output=True,text=True).stdout.split('\n')
    print(out[0],'<=',show(c)[:300])
