#!/bin/sh
# usage: relock.sh [-j N] [Cxx ...]  — rewrites the lock files of the given properties (default: all) from a snapshot of /repo's HEAD
# (git archive into a scratch directory, so /repo can be edited meanwhile; uncommitted /repo changes are NOT part of the locks).
# Evidence written during lock generation goes to a scratch directory; run the quick checks afterwards to refresh /verif/evidence.
J=3
if [ "$1" = "-j" ]; then J=$2; shift 2; fi
cd /verif
[ $# -eq 0 ] && set -- C13 C15 C01 C02 C03 C04 C05 C06 C07 C08 C09 C10 C11 C12 C14 C16 C17 C18 C19 C20
W=$(mktemp -d /tmp/relock-XXXX); mkdir -p $W/repo $W/verif/evidence $W/verif/replays
git -C /repo archive HEAD | tar -x -C $W/repo
ln -s /verif/contracts $W/verif/contracts; ln -s /verif/obligations $W/verif/obligations; ln -s /verif/known_findings.json $W/verif/known_findings.json
echo "relock from /repo $(git -C /repo rev-parse --short HEAD)"
i=0
for p in "$@"; do
  ( GOFLAGS=-mod=mod GOPROXY=off GOSUMDB=off GOTOOLCHAIN=local ./bin/slockvc check -prop $p -write-lock -repo $W/repo -verif $W/verif > /tmp/wl_$p.log 2>&1
    echo "$p rc=$? specerr=$(grep -c SPEC-ERROR /tmp/wl_$p.log) $(tail -1 /tmp/wl_$p.log | cut -c1-170)" ) &
  i=$((i+1)); if [ $((i % J)) -eq 0 ]; then wait; fi
done
wait
rm -rf $W
