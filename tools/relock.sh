#!/bin/sh
# usage: relock.sh [Cxx ...]  — rewrites the lock files (and evidence) of the given properties (default: all) from the current tree.
# Refuses to run when /repo has uncommitted changes (locks must describe a committed tree).
cd /verif
if [ -n "$(git -C /repo status --porcelain)" ]; then echo "relock: /repo has uncommitted changes"; exit 2; fi
[ $# -eq 0 ] && set -- C01 C02 C03 C04 C05 C06 C07 C08 C09 C10 C11 C12 C13 C14 C15 C16 C17 C18 C19 C20
for p in "$@"; do
  GOFLAGS=-mod=mod GOPROXY=off GOSUMDB=off GOTOOLCHAIN=local ./bin/slockvc check -prop $p -write-lock > /tmp/wl_$p.log 2>&1
  echo "$p rc=$? specerr=$(grep -c SPEC-ERROR /tmp/wl_$p.log) $(tail -1 /tmp/wl_$p.log | cut -c1-170)"
done
