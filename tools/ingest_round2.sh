#!/bin/sh
# usage: ingest_round2.sh Cxx  — copies the two seeded changes a round-2 agent left under /tmp/wt2/Cxx/_seeded into
# /verif/seeded/Cxx-3 and Cxx-4 and confirms each on a scratch copy of /repo
P=$1
for k in 1 2; do
  src=/tmp/wt2/$P/_seeded/$k; n=$((k+2)); dst=/verif/seeded/$P-$n
  [ -f $src/patch.diff ] || { echo "$P-$n: no patch"; continue; }
  mkdir -p $dst; cp $src/patch.diff $dst/patch.diff; cp $src/demo_test.go $dst/demo_test.go 2>/dev/null || cp $src/*_test.go $dst/demo_test.go; cp $src/meta.json $dst/meta.json
  /verif/tools/confirm_seeded.sh $dst | tail -1
done
