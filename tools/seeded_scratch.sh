#!/bin/sh
# usage: seeded_scratch.sh [-j N] <seeded-name>...   — like run_seeded.sh but never touches /repo or /verif/evidence:
# each change is applied to a scratch copy of /repo's working tree and checked with the committed locks through a scratch
# verif directory (contracts, obligations and known findings linked, evidence and replays thrown away). Safe to run in parallel.
J=4
if [ "$1" = "-j" ]; then J=$2; shift 2; fi
cd /verif
one() {
  n=$1; p=${n%%-*}
  W=$(mktemp -d /tmp/seedscr-$n-XXXX)
  rsync -a --exclude .git /repo/ $W/repo/
  mkdir -p $W/verif/evidence $W/verif/replays
  ln -s /verif/contracts $W/verif/contracts; ln -s /verif/obligations $W/verif/obligations; ln -s /verif/known_findings.json $W/verif/known_findings.json
  if ! (cd $W/repo && patch -p1 -s < /verif/seeded/$n/patch.diff >/dev/null 2>&1); then echo "$n: patch does not apply"; rm -rf $W; return; fi
  out=$(GOFLAGS=-mod=mod GOPROXY=off GOSUMDB=off GOTOOLCHAIN=local /verif/bin/slockvc check -prop $p -tier quick -repo $W/repo -verif $W/verif 2>&1); rc=$?
  v=$(echo "$out" | grep -c '^VIOLATION')
  r=$(echo "$out" | grep '^VIOLATION' | grep -vc 'no-failing-input-found')
  echo "$n: exit=$rc violations=$v replayed=$r $(echo "$out" | grep '^VIOLATION' | head -2 | sed 's/.*replay=//' | xargs -n1 basename 2>/dev/null | tr '\n' ' ')"
  rm -rf $W
}
i=0
for n in "$@"; do
  one $n &
  i=$((i+1))
  if [ $((i % J)) -eq 0 ]; then wait; fi
done
wait
