#!/bin/sh
# usage: run_in_scratch.sh <test file to copy into server/> <go test -run pattern>   (scratch copy of /repo's working tree)
export GOFLAGS=-mod=mod GOPROXY=off GOSUMDB=off GOTOOLCHAIN=local
W=$(mktemp -d /tmp/scratch-XXXX); rsync -a --exclude .git /repo/ $W/repo/
cp "$1" $W/repo/server/zz_scratch_test.go
(cd $W/repo && go test $SCRATCH_FLAGS -vet=off -count=1 -timeout 300s -run "$2" ./server 2>&1 | tail -${SCRATCH_TAIL:-15}); rc=$?
cd /; rm -rf $W; exit $rc
