#!/bin/sh
# usage: run_seeded.sh [seeded-name ...]  — applies each seeded patch to /repo, runs the property's quick check, reverts.
cd /verif
if [ -n "$(git -C /repo status --porcelain)" ]; then echo "run_seeded: /repo has uncommitted changes; commit them first (the revert step would discard them)"; exit 2; fi
if [ $# -eq 0 ]; then set -- $(ls seeded); fi
# evidence files and replays written while a seeded change is applied describe the changed tree: keep the committed ones
EVB=$(mktemp -d /tmp/evidence-backup-XXXX); cp -r evidence $EVB/ 2>/dev/null
for n in "$@"; do
  d=seeded/$n; p=${n%%-*}
  if ! grep -q "\"$p\"" MANIFEST.json 2>/dev/null || ! python3 -c "import json,sys; m=json.load(open('MANIFEST.json')); sys.exit(0 if any(c['property_id']=='$p' for c in m['checks']) else 1)"; then echo "$n: property $p not claimed"; continue; fi
  if ! git -C /repo apply --check $PWD/$d/patch.diff 2>/dev/null; then echo "$n: patch does not apply to current /repo"; continue; fi
  git -C /repo apply $PWD/$d/patch.diff
  out=$(./check $p 2>&1); rc=$?
  git -C /repo checkout -- . 
  v=$(echo "$out" | grep -c '^VIOLATION')
  echo "$n: exit=$rc violations=$v $(echo "$out" | grep '^VIOLATION' | head -2 | sed 's/.*replay=//' | xargs -n1 basename 2>/dev/null | tr '\n' ' ')"
done
rm -rf evidence; cp -r $EVB/evidence evidence; rm -rf $EVB
git -C /repo status --short | head -3
