#!/usr/bin/env python3
# Regenerates /verif/MANIFEST.json from the table below (kept in one place so it stays valid).
import json, subprocess, os
HOOK_COMMITS = subprocess.run(["git","-C","/repo","log","--format=%h %s"],capture_output=True,text=True).stdout.splitlines()
hooks = [l.split()[0] for l in HOOK_COMMITS if "verif hook" in l]
TECH = "function contracts + weakest-precondition VCs over go/ssa, discharged by z3/cvc5"
claimed = {
 "C01": ("proof", "admission rule of doLock proved for all inputs (every uint32/uint16 value, any heap): a granted request sees locked <= its Count and <= the oldest holder's Count; the Count==0xffff 'unlimited' class is a recorded known finding",
         "contracts on doLock only so far; grant sites and the monitor invariant (locked == sum of depths) not yet under contract; key table and PriorityMutex trusted", "4/C01"),
 "C14": ("proof", "for all field values / all 64-byte inputs: Decode(Encode(x)) == x and Encode(Decode(b)) == b on every defined byte for all 20 command/result types (real Encode/Decode bodies composed by harness functions), and the LOCK/UNLOCK request and response frames match the README offsets byte for byte",
         "string fields (CALL method name, error type, leader host) are excluded from the value round trip (strings.Trim not modelled); server-side hand-inlined codecs, text parser chunk independence and text<->binary equivalence not yet under contract", "4/C14"),
 "C12": ("proof", "CompareAofId equals the specified log-position order (index with wrap-around, then offset, then command time) for all 2^256 input pairs",
         "only the comparison kernel so far; proposal/commit handlers, vote choice and restart durability not yet under contract; transport outside", "4/C12"),
}
na_reason = "not yet built in this session (engine exists; contracts for this property pending) - see DESIGN.md section 4 for the plan"
props = [json.loads(l) for l in open("/verif/properties.jsonl")]
checks, na = [], []
for p in props:
    pid = p["id"]
    if pid in claimed:
        cat, text, note, ref = claimed[pid]
        checks.append({
            "property_id": pid,
            "quick_cmd": f"./check {pid} --tier quick",
            "thorough_cmd": f"./check {pid} --tier thorough",
            "evidence_file": f"/verif/evidence/{pid}.json",
            "replay_cmd_template": f"./check {pid} --replay {{path}}",
            "engine": "slockvc",
            "level_claimed": {"category": cat, "text": text, "design_ref": ref},
            "level_note": note,
            "technique": TECH,
        })
    else:
        na.append({"property_id": pid, "reason": NA.get(pid, na_reason) if (NA:=globals().get("NA_REASONS",{})) is not None else na_reason})
m = {
 "version": 1,
 "setup_cmd": "cd /verif/slockvc && GOFLAGS=-mod=mod GOPROXY=off GOSUMDB=off GOTOOLCHAIN=local go build -o /verif/bin/slockvc .",
 "hooks": {
  "guard": "verif",
  "enable": "contract files <pkg>/zz_verif_contracts.go (comment-only) and harness files <pkg>/zz_verif_harness.go carry //go:build verif; the engine loads /repo with -tags verif",
  "baseline_off_cmd": "cd /repo && go test -mod=mod -vet=off -count=1 -timeout 25m ./...",
  "source_commits": hooks,
  "add_only": True
 },
 "engines": [{"name": "slockvc", "path": "/verif/slockvc", "serves_properties": sorted(claimed), "kind_free_text": "deductive verifier for Go written for this task: contracts as //@ comments in /repo, VC generation over go/ssa, SMT back ends z3 4.8.12 / z3 5.1.0 / cvc5 1.0, counterexample replay as in-package go test on a scratch copy"}],
 "checks": checks,
 "not_applicable": na,
 "notes": "Every check rebuilds its verification conditions from /repo's working tree on each run. Known findings: /verif/known_findings.json. Lock files of claimed obligations: /verif/obligations/<id>.lock."
}
json.dump(m, open("/verif/MANIFEST.json","w"), indent=1)
print("checks:", [c["property_id"] for c in checks], "na:", len(na))
