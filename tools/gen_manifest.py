#!/usr/bin/env python3
# Regenerates /verif/MANIFEST.json from the table below (kept in one place so it stays valid).
import json, subprocess, os
HOOK_COMMITS = subprocess.run(["git","-C","/repo","log","--format=%h %s"],capture_output=True,text=True).stdout.splitlines()
hooks = [l.split()[0] for l in HOOK_COMMITS if "verif hook" in l]
TECH = "function contracts + weakest-precondition VCs over go/ssa, discharged by z3/cvc5"
ENGINE_NOTE = "sequential per-section reasoning under the monitor rule: protected state is forgotten and the section invariant assumed where a section starts; assumed and not proved: key-table linearizability, PriorityMutex mutual exclusion, the reference-count discipline of queue maintenance (clauses marked 'assumes'), queue internals (contracts marked trusted, subject of C20); every assumed clause is listed in the evidence file on each run"
claimed = {
 "C01": ("proof", "doLock's admission rule proved for all inputs; at every grant site of LockDB.Lock the rule holds in the state of the grant and the manager still owns the request's key (site obligations), AddLock/RemoveLock keep depth and oldest-holder as specified; the Count==0xffff 'unlimited' class is a recorded known finding",
         ENGINE_NOTE + "; grant sites inside wakeUpWaitLock not yet under contract", "4/C01"),
 "C02": ("proof", "UnLock: a SUCCED reply implies the request's LockId (or, unlock-first, the oldest holder) held the key, the depth arithmetic follows Rcount exactly, the hold ends iff depth reaches zero; refusals change nothing; GetLockedLock soundness; re-entrant branch of Lock bounded by Rcount and 0xff",
         ENGINE_NOTE + "; completeness of the holder lookup in the map-backed queue (GetLock) is assumed (trusted queue contract)", "4/C02"),
 "C03": ("proof", "path-sensitive reply accounting for LockDB.Lock and LockDB.UnLock: on every path exactly one terminal reply, or the request is handed to exactly one retaining mechanism (wait queue, ack pending, re-dispatch), never both; command objects freed at most once",
         ENGINE_NOTE + "; repliers outside Lock/UnLock (doTimeOut, doExpried, wakeUpWaitLock, cancelWaitLock, DoAckLock) and routing by proxy not yet under contract", "4/C03"),
 "C04": ("proof", "UnLock: every path on which capacity was released runs the wake pass before returning; GetWaitLock returns only live waiters",
         ENGINE_NOTE + "; wake loop, expiry/timeout/rollback callers, queue order and priority not yet under contract", "4/C04"),
 "C05": ("proof", "timeoutTime == now + T(unit) + 1 at queueing (GetOrNewLock, UpdateLockedLock); AddTimeOut picks a wheel slot within the next 8 seconds and never after the deadline, or the long table keyed by the deadline; the sweeper dispatches every second in [last, now] once and hands a request to doTimeOut only when its deadline has passed; doTimeOut answers TIMEOUT once, never after the tombstone, and re-arms only for a live keep-alive stream; GetWaitLock never returns a timed-out request",
         ENGINE_NOTE + "; wheel/table membership of popped entries assumed; millisecond wheel and the long-table drain loop not under contract; wall clock vs server clock and goroutine start-up outside", "4/C05"),
 "C06": ("proof", "expriedTime == grant time + E(unit) + 1 (AddLock), restarted by UpdateLockedLock, 'may be ignored' bound of CheckLockedEqual, AddExpried slot/long-table rule, sweeper never-early obligations, a long-table entry is moved with its old key when an update changes the deadline; doExpried removes exactly the hold's depth from the key's total, answers EXPRIED once and runs the wake pass",
         ENGINE_NOTE + "; millisecond wheel not under contract; liveness of the sweeper outside", "4/C06"),
 "C11": ("proof", "kernel only: AddLock marks require-ack holds pending; DoAckLock replies exactly once per pending hold with the code the outcome demands, a failed ack removes exactly the hold's depth, restores the value (ProcessRecoverLockData) and runs the wake pass; grants from the wait queue save undo data exactly on the ack branch; doTimeOut rolls a pending hold back",
         ENGINE_NOTE + "; replication-side counting of acknowledgements (ProcessLeaderAofed/Acked, UpdateDBAckCount) and the aof flush order not yet under contract", "4/C11"),
 "C10": ("proof", "kernel only: LockDB.Lock and LockDB.UnLock answer STATE_ERROR and leave the engine state untouched whenever the node is not leader and the request is not from the log; PushLockAof/PushUnLockAof/PushExecutorLockCommand are no-ops on a non-leader",
         ENGINE_NOTE + "; dispatch in the protocol handlers, forwarding by the transparency layer and the follower expiry re-arm not yet under contract; two-process behaviour is outside", "4/C10"),
 "C17": ("proof", "LCount/LRCount arguments at every reply site of Lock/UnLock equal the counters read under the mutex; LockedCount and WaitCount change exactly with the manager's hold total and queue additions along every path of Lock/UnLock; RemoveLockManager drops the key's value whenever it releases the key",
         ENGINE_NOTE + "; reference-count reclamation (drain lemma) not proved", "4/C17"),
 "C13": ("proof", "zero-annotation safety sweep over every function of package protocol and the connection-handling types of package server (stream, binary/text/transparency protocols, value-frame helpers): each index, slice, nil dereference, type assertion, division and explicit panic is an obligation proved for all inputs of the function (callees inlined one level); the claimed set is what discharges on the pinned tree",
         "function-level: obligations that need facts from callers and do not discharge are NOT claimed (listed as unproved_unclaimed in the evidence); receivers of methods are assumed non-nil; 'does not affect other connections' beyond no-panic is outside", "4/C13"),
 "C14": ("proof", "for all field values / all 64-byte inputs: Decode(Encode(x)) == x and Encode(Decode(b)) == b on every defined byte for all 20 command/result types (real Encode/Decode bodies composed by harness functions), and the LOCK/UNLOCK request and response frames match the README offsets byte for byte",
         "string fields (CALL method name, error type, leader host) are excluded from the value round trip (strings.Trim not modelled); server-side hand-inlined codecs, text parser chunk independence and text<->binary equivalence not yet under contract", "4/C14"),
 "C16": ("proof", "compaction, function by function: findRewriteAofFiles never selects the append file that is being written (nor one ahead of it); the per-record filter of loadRewriteAofFiles asks the engine about exactly the record's terms (key, LockId, flags, Count, Rcount, value, and the lifetime left now per the C07 specification) and copies a record, and then its value, only after that one positive answer; clearRewriteAofFiles is required to have the compacted file renamed into place before any input is removed - this fails on the pinned tree and is a recorded known finding with a demonstration",
         "the engine's HasLock answer, the record stream reader (C08) and the appended bytes are taken as given; equality of the recoverable state before and after a compaction as a whole-directory statement, concurrent appends during a compaction, and crash points other than the remove/rename order are outside per-function contracts", "4/C16"),
 "C20": ("proof", "the three segmented array deques of server/queue.go (LockQueue, LockCommandQueue, LockManagerQueue): representation invariant qInv established by the constructor and preserved by Push, PushLeft, Pop, PopRight, Reset and Rellac; each of these, and Head, Tail, IterNodes, IterNodeQueues, is proved against the abstract view (the cells between the head and tail cursors in node-major order): which cell receives or yields the element, where the cursors move (including every node-boundary crossing and node allocation), and that every other cell keeps its element; Len exact while the cursors are at most one node apart",
         "Resize, Restructuring, Shrink and freeQueue are NOT under contract (Resize leaves allocated nodes above nodeIndex, outside qInv, so the proofs cover queues on which these four have not been applied); the key-level queues built on top (LockManagerLockQueue, LockManagerWaitQueue, ring and priority ring queues, LongWaitLockQueue) keep trusted contracts; Len beyond two nodes is not proved equal to the element count (32-bit sum); fewer than 2^30 nodes is assumed by the growing operations; encapsulation (no code outside the methods writes the fields) is not checked; constructor arguments at call sites are assumed to satisfy C20.ctor", "4/C20"),
 "C07": ("proof", "what is persisted for a hold and what a restart makes of it, function by function: (1) the remaining lifetime written into a record (GetAofLockExpriedTime) and the lifetime a restart hands back to the engine (GetLockCommandExpriedTime) equal their specification functions for every unit, and two lemmas over these functions show the restored deadline t + life + 1 is within one unit plus a second of the original deadline for every persist time and restart time - the wrap of the longest lifetime found by this obligation is repaired (fix commit); (2) AofLock.Encode and Decode establish the same field/byte layout (round trip of the 64-byte record); (3) AofChannel.Push copies key, LockId, flags, Count/Rcount, record time min(now, deadline) and the value into the record; (4) the persist-when rule of AddExpried, the persisted mark set by PushLockAof / PushUnLockAof, a partially released hold keeps its mark (UnLock site), never-persist and persist-immediately flags set aofTime (AddLock); (5) Aof.PushLock writes the value right behind its record before the file can rotate",
         "assumed at AofChannel.Push: server clock sane and deadline at most 0xffff units + 1 ahead (engine invariant); Flush, RewriteAofFile and the replication publish are cut (modifies all); the replay path through LoadLock -> LockDB.Lock and the exactness of the restored set ('exactly the holds') are a whole-history statement not decided here; restart time is assumed inside the hold's lifetime (the loader skips expired records)", "4/C07"),
 "C08": ("proof", "reader side of crash recovery: AofFile.ReadLock hands a record to the replayer only if every byte of the length it decoded was delivered by the file in this call (ghost count of delivered bytes), ReadLockData likewise for the 4-byte length and the whole value (loop invariants over partial reads), LoadAofFile keeps the record stream and the value stream in step (the value of every data-bearing record is consumed before the next record is read, loop invariant over ghost record numbers); Open in append mode is required to leave the file on the 64-byte grid - this obligation fails on the pinned tree and is a recorded known finding; the ReadLock defect found by its obligation is repaired (fix commit)",
         "assumed: bufio.Reader over *os.File delivers 0..len(p) bytes and reports an error only with zero bytes; the replay callback of LoadAofFile neither reads the files nor rewrites the decoded record; writer side (Flush writes records before values, Sync, torn value file after a crash between the two writes), 'some prefix' as a statement about the persisted history, and the second-restart clause are outside what a per-function contract decides here", "4/C08"),
 "C12": ("proof", "CompareAofId equals the specified log-position order for all 2^256 input pairs; acceptor handlers (remote and self proposal/commit): accepted and committed numbers never decrease, a proposal is accepted only above both and only while no commit is outstanding, a commit only for exactly the accepted number, once, and the reply is an ack iff the state changed; DoVote only ever selects a data-bearing member of non-zero weight (loop invariant); vote/proposal/commit succeed only with len(members)/2+1 answers",
         "one handler call at a time under voter.glock (any delivery order is a sequence of such calls); maximality of the chosen log position in DoVote, durability across restart (ArbiterStore) and the announcement/offline clearing steps are not under contract; transport and kill -9 outside; slice capacities are assumed <= 2^62", "4/C12"),
}
na_reason = "not yet built in this session (engine exists; contracts for this property pending) - see DESIGN.md section 4 for the plan"
props = [json.loads(l) for l in open("/verif/properties.jsonl")]
checks, na = [], []
for p in props:
    pid = p["id"]
    if pid in claimed:
        cat, text, note, ref = claimed[pid]
        checks.append({
            "property_id": pid,
            "quick_cmd": f"./check {pid} --tier quick",
            "thorough_cmd": f"./check {pid} --tier thorough",
            "evidence_file": f"/verif/evidence/{pid}.json",
            "replay_cmd_template": f"./check {pid} --replay {{path}}",
            "engine": "slockvc",
            "level_claimed": {"category": cat, "text": text, "design_ref": ref},
            "level_note": note,
            "technique": TECH,
        })
    else:
        na.append({"property_id": pid, "reason": NA.get(pid, na_reason) if (NA:=globals().get("NA_REASONS",{})) is not None else na_reason})
m = {
 "version": 1,
 "setup_cmd": "cd /verif/slockvc && GOFLAGS=-mod=mod GOPROXY=off GOSUMDB=off GOTOOLCHAIN=local go build -o /verif/bin/slockvc .",
 "hooks": {
  "guard": "verif",
  "enable": "contract files <pkg>/zz_verif_contracts.go (comment-only) and harness files <pkg>/zz_verif_harness.go carry //go:build verif; the engine loads /repo with -tags verif",
  "baseline_off_cmd": "cd /repo && go test -mod=mod -vet=off -count=1 -timeout 25m ./...",
  "source_commits": hooks,
  "add_only": True
 },
 "engines": [{"name": "slockvc", "path": "/verif/slockvc", "serves_properties": sorted(claimed), "kind_free_text": "deductive verifier for Go written for this task: contracts as //@ comments in /repo, VC generation over go/ssa, SMT back ends z3 4.8.12 / z3 5.1.0 / cvc5 1.0, counterexample replay as in-package go test on a scratch copy"}],
 "checks": checks,
 "not_applicable": na,
 "notes": "Every check rebuilds its verification conditions from /repo's working tree on each run. Known findings: /verif/known_findings.json. Lock files of claimed obligations: /verif/obligations/<id>.lock."
}
json.dump(m, open("/verif/MANIFEST.json","w"), indent=1)
print("checks:", [c["property_id"] for c in checks], "na:", len(na))
