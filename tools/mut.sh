#!/bin/sh
# usage: mut.sh <seeded-name> <prop> <function pattern>...  — verifies the named functions (slockvc fn) on a scratch copy of /repo's
# working tree (uncommitted contract edits included) with the seeded patch applied; prints what is not discharged. /repo is not touched.
S=$1; P=$2; shift 2
W=$(mktemp -d /tmp/mut-$S-XXXX); rsync -a --exclude .git /repo/ $W/repo/
(cd $W/repo && patch -p1 -s < /verif/seeded/$S/patch.diff) || { echo "patch does not apply"; rm -rf $W; exit 1; }
GOFLAGS=-mod=mod GOPROXY=off GOSUMDB=off GOTOOLCHAIN=local /verif/bin/slockvc fn -prop $P -repo $W/repo "$@" 2>&1 | grep -v "warn\|cover/path" | grep "^==\|\[failed\]\|\[undecided\]" | cut -c1-${MUT_COLS:-260}
rm -rf $W
