#!/usr/bin/env python3
# Regenerates section 11 of DESIGN.md from tools/asbuilt.md, the lock files, MANIFEST.json and seeded/RESULTS.txt
import json, re, os
V='/verif'
man=json.load(open(f'{V}/MANIFEST.json'))
rows=["| id | claimed obligations | unclaimed (not proved) | dead paths | functions under contract | what is not covered (MANIFEST level_note) |","|----|----|----|----|----|----|"]
for c in man['checks']:
    pid=c['property_id']
    lk=json.load(open(f'{V}/obligations/{pid}.lock'))
    ev={}
    try: ev=json.load(open(f'{V}/evidence/{pid}.json'))
    except Exception: pass
    nf=len((ev.get('coverage') or {}).get('functions_under_contract',[]) or ev.get('functions_under_contract',[]) or [])
    note=c.get('level_note','') or c['level_claimed'].get('text','')
    rows.append(f"| {pid} | {len(lk.get('obligations') or [])} | {len(lk.get('unclaimed') or [])} | {len(lk.get('dead_paths') or [])} | {nf} | {note.replace('|','/')} |")
ptable='\n'.join(rows)
res={}
p=f'{V}/seeded/RESULTS.txt'
if os.path.exists(p):
    for l in open(p):
        m=re.match(r'(C\d\d-\d+): exit=(\d) violations=(\d+) ?(.*)',l.strip())
        if m: res[m.group(1)]=(m.group(2),m.group(3),m.group(4))
srows=["| change | what it does (one line) | result | first failing obligation |","|----|----|----|----|"]
missing={"C09-11":"the follower's append loop (`ProcessAofAppend`) keeps its resume position in a local 16-byte array copied from the record buffer; the change moves the copy into one branch of a `select` - a clause would have to relate the local to the last appended record across a `select` with channel receives, which the engine models as fresh values",
"C12-11":"the candidate's client returns the refusal wrapped with `fmt.Errorf(\"%w\")` instead of the bare sentinel the caller compares with `==`; error identity through `fmt.Errorf` / `errors.Is` is outside the fragment (both are fresh non-nil interfaces to the engine)",
"C17-11":"the last reference of a key can be dropped inside the wake pass itself; that the pass then reclaims the key needs the value of `lockManager.waited` at the test after the loop, which the loop cut forgets (a clause written with `atsection()` fails on the unchanged tree as well)",
"C05-1":"the millisecond wheel's hand-over to the second wheel is not under contract: the bucket's entries live in the same element map that `AddTimeOut` may write, so facts about the remaining entries do not survive the call (needs object-granular frames on arrays)"}
for n in sorted(os.listdir(f'{V}/seeded')):
    mp=f'{V}/seeded/{n}/meta.json'
    if not os.path.exists(mp): continue
    meta=json.load(open(mp))
    summ=(meta.get('summary') or '').split(': ',1)
    one=(meta.get('summary') or '')[:170].replace('|','/').replace('\n',' ')
    r=res.get(n)
    if meta.get('superseded'):
        res.pop(n,None)
        srows.append(f"| {n} | {one}… | superseded | {meta['superseded'][:260]} |")
        continue
    if not r:
        srows.append(f"| {n} | {one}… | not run | |")
        continue
    if r[0]=='1':
        ob=re.sub(r'^replayed=\d+ ','',r[2]).split('.json')[0].lstrip('_')
        srows.append(f"| {n} | {one}… | caught ({r[1]} violation(s)) | `{ob}` |")
    else:
        srows.append(f"| {n} | {one}… | **missed** | {missing.get(n,'')} |")
stable='\n'.join(srows)
caught=sum(1 for v in res.values() if v[0]=='1')
stable+=f"\n\n{caught} of {len(res)} applicable seeded changes are caught by the quick check of their property (superseded ones not counted)."
kf=json.load(open(f'{V}/known_findings.json'))
frows=["| commit | property | obligation that failed before the repair | defect |","|--------|----------|------------------------|--------|"]
for k in kf:
    if k.get('status')=='fixed':
        frows.append(f"| {k.get('commit','')} | {k['property']} | `{k['obligation']}` | {k['what'].replace('|','/')} |")
ftable='\n'.join(frows)
body=open(f'{V}/tools/asbuilt.md').read().replace('@@PROPERTY_TABLE@@',ptable).replace('@@SEEDED_TABLE@@',stable).replace('@@FIXED_TABLE@@',ftable)
d=open(f'{V}/DESIGN.md').read()
a=d.index('<!-- ASBUILT-BEGIN -->')+len('<!-- ASBUILT-BEGIN -->'); b=d.index('<!-- ASBUILT-END -->')
open(f'{V}/DESIGN.md','w').write(d[:a]+'\n'+body+'\n'+d[b:])
print('DESIGN.md section 11 regenerated:',len(man['checks']),'properties,',len(res),'seeded results')
