import re
p='/repo/server/zz_verif_contracts.go'; s=open(p).read()
# drop everything from the C20 section header on (regenerated)
mark='// =====================================================================================================\n// C20: the segmented array deques'
if mark in s: s=s[:s.index(mark)].rstrip('\n')+'\n'
# restore/replace the LockQueue Push/PopRight blocks (generated below)
s=re.sub(r'//@ func \(\*LockQueue\)\.Push\n(//@   .*\n)+','',s)
s=re.sub(r'//@ func \(\*LockQueue\)\.PopRight\n(//@   .*\n)+','',s)
s=re.sub(r'//@ func \(\*LockQueue\)\.Pop\n(//@   .*\n)+','',s)
s=re.sub(r'//@ func \(\*LockQueue\)\.Rellac\n(//@   .*\n)+','',s)
head='''
// =====================================================================================================
// C20: the segmented array deques refine a plain deque.
// Abstract view: the cells between the head cursor (headNodeIndex, headQueueIndex) and the tail cursor
// (tailNodeIndex, tailQueueIndex) in node-major order; qInv is the representation invariant that every
// public operation preserves, and each operation's postcondition describes the whole view (which cell
// changed, where the cursors went, that every other cell kept its element).
// =====================================================================================================
//@ spec func qCell(q, n, k) = q.queues[n][k]
//@ spec func qEmpty(q) = q.headNodeIndex == q.tailNodeIndex && q.headQueueIndex == q.tailQueueIndex
//@ spec func qNodesOk(q) = forall(i, 0, q.nodeIndex+1, !isnil(q.queues[i]) && allocated(q.queues[i]) && off(q.queues[i]) == 0 && len(q.queues[i]) == q.nodeQueueSizes[i] && q.nodeQueueSizes[i] >= 1 && q.nodeQueueSizes[i] <= 0x3ffffff) && forall(i, q.nodeIndex+1, q.nodeSize, isnil(q.queues[i])) && forall(i, 0, q.nodeIndex+1, forall(j, 0, q.nodeIndex+1, implies(i != j, arr(q.queues[i]) != arr(q.queues[j]))))
//@ spec func qShape(q) = q != nil && len(q.queues) == q.nodeSize && len(q.nodeQueueSizes) == q.nodeSize && q.baseNodeSize >= 1 && arr(q.queues) != 0 && arr(q.nodeQueueSizes) != 0 && 0 <= q.nodeIndex && q.nodeIndex < q.nodeSize && 0 <= q.rellacTailNodeIndex && q.rellacTailNodeIndex < 0x40000000
//@ spec func qCursorsOk(q) = 0 <= q.headNodeIndex && q.headNodeIndex <= q.tailNodeIndex && q.tailNodeIndex <= q.nodeIndex && q.headQueue == q.queues[q.headNodeIndex] && q.headQueueSize == q.nodeQueueSizes[q.headNodeIndex] && q.tailQueue == q.queues[q.tailNodeIndex] && q.tailQueueSize == q.nodeQueueSizes[q.tailNodeIndex] && 0 <= q.headQueueIndex && q.headQueueIndex < q.headQueueSize && 0 <= q.tailQueueIndex && q.tailQueueIndex < q.tailQueueSize && (q.headNodeIndex < q.tailNodeIndex || q.headQueueIndex <= q.tailQueueIndex)
//@ spec func qInv(q) = qShape(q) && 1 <= q.queueSize && q.queueSize <= 0x3ffffff && qNodesOk(q) && qCursorsOk(q)
// resource assumption of the growing operations: fewer than 2^30 nodes (every node holds at least one element)
//@ spec func qBounded(q) = q.nodeSize < 0x40000000
//@ spec func qOthersSame(q, n0, k0) = forall(n, 0, old(q.nodeIndex)+1, forall(k, 0, old(q.nodeQueueSizes[n]), implies(!(n == n0 && k == k0), qCell(q, n, k) == old(qCell(q, n, k)))))
//@ spec func qAllSame(q) = forall(n, 0, old(q.nodeIndex)+1, forall(k, 0, old(q.nodeQueueSizes[n]), qCell(q, n, k) == old(qCell(q, n, k))))
//@ spec func qSizesSame(q) = q.nodeIndex >= old(q.nodeIndex) && forall(n, 0, old(q.nodeIndex)+1, q.nodeQueueSizes[n] == old(q.nodeQueueSizes[n]))
//@ spec func qHeadSame(q) = q.headNodeIndex == old(q.headNodeIndex) && q.headQueueIndex == old(q.headQueueIndex)
//@ spec func qTailSame(q) = q.tailNodeIndex == old(q.tailNodeIndex) && q.tailQueueIndex == old(q.tailQueueIndex)
//@ spec func qStorageSame(q) = q.queues == old(q.queues) && q.nodeQueueSizes == old(q.nodeQueueSizes) && q.nodeSize == old(q.nodeSize) && q.baseNodeSize == old(q.baseNodeSize)
'''
tpl='''
// ---- QTYPE ----
//@ func NewQTYPE
//@   requires C20.ctor: baseNodeSize >= 1 && nodeSize >= 1 && nodeSize < 0x40000000 && queueSize >= 1 && queueSize <= 0x3ffffff
//@   ensures C20.new: qInv(result) && qEmpty(result) && result.headNodeIndex == 0 && result.headQueueIndex == 0 && result.nodeSize == nodeSize && fresh(result)

//@ func (*QTYPE).Push
//@   requires C20.inv: qInv(self) && qBounded(self)
EXTRA_PUSH//@   ensures C20.push.inv: qInv(self)
//@   ensures C20.push.view: qCell(self, old(self.tailNodeIndex), old(self.tailQueueIndex)) == ELEM && qOthersSame(self, old(self.tailNodeIndex), old(self.tailQueueIndex)) && qSizesSame(self)
//@   ensures C20.push.cursors: qHeadSame(self) && ite(old(self.tailQueueIndex) + 1 < old(self.tailQueueSize), self.tailNodeIndex == old(self.tailNodeIndex) && self.tailQueueIndex == old(self.tailQueueIndex) + 1, self.tailNodeIndex == old(self.tailNodeIndex) + 1 && self.tailQueueIndex == 0)
//@   ensures C20.push.ok: isnil(result)
//@   modifies QTYPE.*, EMAPS

//@ func (*QTYPE).PushLeft
//@   requires C20.inv: qInv(self)
//@   ensures C20.pushleft.inv: qInv(self) && qSizesSame(self) && qTailSame(self)
//@   ensures C20.pushleft.full: implies(old(self.headNodeIndex) == 0 && old(self.headQueueIndex) == 0, !isnil(result) && qHeadSame(self) && qAllSame(self))
//@   ensures C20.pushleft.view: implies(!(old(self.headNodeIndex) == 0 && old(self.headQueueIndex) == 0), isnil(result) && qCell(self, self.headNodeIndex, self.headQueueIndex) == ELEM && qOthersSame(self, self.headNodeIndex, self.headQueueIndex) && ite(old(self.headQueueIndex) > 0, self.headNodeIndex == old(self.headNodeIndex) && self.headQueueIndex == old(self.headQueueIndex) - 1, self.headNodeIndex == old(self.headNodeIndex) - 1 && self.headQueueIndex == old(self.nodeQueueSizes[self.headNodeIndex - 1]) - 1))
//@   modifies QTYPE.*, EPMAP

//@ func (*QTYPE).Pop
//@   requires C20.inv: qInv(self)
EXTRA_POP//@   ensures C20.pop.inv: qInv(self) && qSizesSame(self) && qTailSame(self)
//@   ensures C20.pop.empty: implies(old(qEmpty(self)), result == nil && qHeadSame(self) && qAllSame(self))
//@   ensures C20.pop.view: implies(!old(qEmpty(self)), result == old(qCell(self, self.headNodeIndex, self.headQueueIndex)) && qCell(self, old(self.headNodeIndex), old(self.headQueueIndex)) == nil && qOthersSame(self, old(self.headNodeIndex), old(self.headQueueIndex)) && ite(old(self.headQueueIndex) + 1 < old(self.headQueueSize), self.headNodeIndex == old(self.headNodeIndex) && self.headQueueIndex == old(self.headQueueIndex) + 1, self.headNodeIndex == old(self.headNodeIndex) + 1 && self.headQueueIndex == 0))
//@   modifies QTYPE.*, EPMAP

//@ func (*QTYPE).PopRight
//@   requires C20.inv: qInv(self)
EXTRA_POPRIGHT//@   ensures C20.popright.inv: qInv(self) && qSizesSame(self) && qHeadSame(self)
//@   ensures C20.popright.empty: implies(old(qEmpty(self)), result == nil && qTailSame(self) && qAllSame(self))
//@   ensures C20.popright.view: implies(!old(qEmpty(self)), result == ite(old(self.tailQueueIndex) > 0, old(qCell(self, self.tailNodeIndex, self.tailQueueIndex - 1)), old(qCell(self, self.tailNodeIndex - 1, self.nodeQueueSizes[self.tailNodeIndex - 1] - 1))) && qCell(self, self.tailNodeIndex, self.tailQueueIndex) == nil && qOthersSame(self, self.tailNodeIndex, self.tailQueueIndex) && ite(old(self.tailQueueIndex) > 0, self.tailNodeIndex == old(self.tailNodeIndex) && self.tailQueueIndex == old(self.tailQueueIndex) - 1, self.tailNodeIndex == old(self.tailNodeIndex) - 1 && self.tailQueueIndex == old(self.nodeQueueSizes[self.tailNodeIndex - 1]) - 1))
//@   modifies QTYPE.*, EPMAP

//@ func (*QTYPE).Head
//@   requires C20.inv: qInv(self)
//@   ensures C20.head: implies(qEmpty(self), result == nil) && implies(!qEmpty(self), result == qCell(self, self.headNodeIndex, self.headQueueIndex))
//@   modifies nothing

//@ func (*QTYPE).Tail
//@   requires C20.inv: qInv(self)
//@   ensures C20.tail: implies(qEmpty(self), result == nil) && implies(!qEmpty(self) && self.tailQueueIndex > 0, result == qCell(self, self.tailNodeIndex, self.tailQueueIndex - 1)) && implies(!qEmpty(self) && self.tailQueueIndex == 0, result == qCell(self, self.tailNodeIndex - 1, self.nodeQueueSizes[self.tailNodeIndex - 1] - 1))
//@   modifies nothing

//@ func (*QTYPE).Len
//@   requires C20.inv: qInv(self)
//@   loop#1 invariant self.headNodeIndex + 1 <= i && i <= self.tailNodeIndex && implies(i == self.headNodeIndex + 1, queueLen == self.nodeQueueSizes[self.headNodeIndex] - self.headQueueIndex)
//@   ensures C20.len.zero: implies(qEmpty(self), result == 0)
//@   ensures C20.len.node: implies(self.headNodeIndex == self.tailNodeIndex, result == self.tailQueueIndex - self.headQueueIndex)
//@   ensures C20.len.next: implies(self.headNodeIndex + 1 == self.tailNodeIndex, result == self.nodeQueueSizes[self.headNodeIndex] - self.headQueueIndex + self.tailQueueIndex)
//@   modifies nothing

//@ func (*QTYPE).Reset
//@   requires C20.inv: qInv(self)
//@   loop#1 invariant qShape(self) && qNodesOk(self) && qStorageSame(self) && self.nodeIndex <= old(self.nodeIndex)
//@   ensures C20.reset: qInv(self) && qEmpty(self) && self.headNodeIndex == 0 && self.headQueueIndex == 0 && isnil(result)
//@   modifies QTYPE.*, ELMAP, E_int32

//@ func (*QTYPE).Rellac
//@   requires C20.inv: qInv(self) && qBounded(self)
//@   loop#1 invariant qShape(self) && qNodesOk(self) && qStorageSame(self) && self.nodeIndex <= old(self.nodeIndex) && baseNodeSize >= 1 && self.tailNodeIndex == old(self.tailNodeIndex)
//@   ensures C20.rellac: qInv(self) && qEmpty(self) && self.headNodeIndex == 0 && self.headQueueIndex == 0 && isnil(result)
//@   modifies QTYPE.*, ELMAP, E_int32

//@ func (*QTYPE).IterNodes
//@   requires C20.inv: qInv(self)
//@   ensures C20.iternodes: arr(result) == arr(self.queues) && off(result) == off(self.queues) + self.headNodeIndex && len(result) == self.tailNodeIndex - self.headNodeIndex + 1
//@   modifies nothing

//@ func (*QTYPE).IterNodeQueues
//@   requires C20.inv: qInv(self) && 0 <= index && index <= self.tailNodeIndex - self.headNodeIndex
//@   ensures C20.iterqueues: arr(result) == arr(self.queues[self.headNodeIndex + index]) && off(result) == ite(index == 0, self.headQueueIndex, 0) && off(result) + len(result) == ite(self.headNodeIndex + index == self.tailNodeIndex, self.tailQueueIndex, self.nodeQueueSizes[self.headNodeIndex + index])
//@   modifies nothing
'''
out=head
for qt,elem,emaps in [('LockQueue','lock','E_LJPserver_Lock, E_Pserver_Lock, E_int32'),
                      ('LockCommandQueue','lock','E_LJPprotocol_LockCommand, E_Pprotocol_LockCommand, E_int32'),
                      ('LockManagerQueue','lockManager','E_LJPserver_LockManager, E_Pserver_LockManager, E_int32')]:
    t=tpl.replace('QTYPE',qt).replace('ELEM',elem).replace('EMAPS',emaps).replace('EPMAP',emaps.split(', ')[1]).replace('ELMAP',emaps.split(', ')[0])
    ex='//@   ensures forallref(l, Lock, lockSame(l))\n' if qt=='LockQueue' else ''
    t=t.replace('EXTRA_PUSH',ex).replace('EXTRA_POPRIGHT',ex).replace('EXTRA_POP',ex)
    out+=t
open(p,'w').write(s+out)
