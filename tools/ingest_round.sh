#!/bin/sh
# usage: ingest_round.sh <worktree root, e.g. /tmp/wt3> <offset, e.g. 4> Cxx  — copies the two seeded changes an agent left under
# <root>/Cxx/_seeded into /verif/seeded/Cxx-(offset+1) and Cxx-(offset+2), confirms each on a scratch copy of /repo
# (patch applies, builds, 85 tests pass, demo fails with / passes without) and records the confirmation in meta.json
R=$1; OFF=$2; P=$3
for k in 1 2; do
  src=$R/$P/_seeded/$k; n=$((k+OFF)); dst=/verif/seeded/$P-$n
  [ -f $src/patch.diff ] || { echo "$P-$n: no patch"; continue; }
  mkdir -p $dst; cp $src/patch.diff $dst/patch.diff; cp $src/demo_test.go $dst/demo_test.go 2>/dev/null || cp $src/*_test.go $dst/demo_test.go; cp $src/meta.json $dst/meta.json
  /verif/tools/confirm_seeded.sh $dst | tail -1
  python3 - $dst <<'PY'
import json,sys
d=sys.argv[1]; m=json.load(open(d+'/meta.json')); lg=open(d+'/confirm.log').read()
m['confirmed']={'how':'tools/confirm_seeded.sh on a scratch copy of /repo (never applied to /repo except transiently by tools/run_seeded.sh / tools/try_mutant.sh): demo without the patch must pass, the tree with the patch must build, the demo with the patch must fail, the 85 baseline tests with the patch must pass','result':lg.splitlines()[0] if lg else '','verdict':lg.strip().splitlines()[-1] if lg else ''}
json.dump(m,open(d+'/meta.json','w'),indent=1)
PY
done
