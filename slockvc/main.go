package main

import (
	"flag"
	"fmt"
	"golang.org/x/tools/go/ssa"
	"os"
	"path/filepath"
	"runtime"
	"sort"
	"strings"
	"time"
)

func usage() {
	fmt.Fprintln(os.Stderr, `usage:
  slockvc fn [-safe] [-dump dir] [-t ms] <function name substring>...   verify single functions (debug)
  slockvc check -prop C01 [-tier quick|thorough] [-repo /repo] [-verif /verif]
  slockvc sweep [-repo /repo]            zero-annotation safety sweep (debug)`)
	os.Exit(2)
}

func main() {
	if len(os.Args) < 2 {
		usage()
	}
	switch os.Args[1] {
	case "fn":
		cmdFn(os.Args[2:])
	case "check":
		os.Exit(cmdCheck(os.Args[2:]))
	case "sweep":
		cmdSweep(os.Args[2:])
	case "lock":
		os.Exit(cmdLock(os.Args[2:]))
	case "mods":
		cmdMods(os.Args[2:])
	default:
		usage()
	}
}

func cmdFn(args []string) {
	fs := flag.NewFlagSet("fn", flag.ExitOnError)
	safe := fs.Bool("safe", false, "generate safety obligations")
	dump := fs.String("dump", "", "dump SMT scripts of failed obligations to dir")
	tmo := fs.Int("t", 10000, "timeout ms")
	repo := fs.String("repo", "/repo", "repository")
	verif := fs.String("verif", "/verif", "verif dir")
	verbose := fs.Bool("v", false, "list all obligations")
	prop := fs.String("prop", "", "assume only untagged and this property's ensures at call sites")
	fs.Parse(args)
	t0 := time.Now()
	e, err := LoadEngine(*repo)
	if err != nil {
		fmt.Fprintln(os.Stderr, "load:", err)
		os.Exit(2)
	}
	if err := e.LoadAllContracts(*verif); err != nil {
		fmt.Fprintln(os.Stderr, "contracts:", err)
		os.Exit(2)
	}
	fmt.Printf("loaded in %.1fs, %d functions, %d contracts\n", time.Since(t0).Seconds(), len(e.funcs), len(e.contracts))
	var names []string
	for n := range e.funcs {
		for _, pat := range fs.Args() {
			if n == pat || (strings.HasPrefix(pat, "~") && strings.Contains(n, pat[1:])) {
				names = append(names, n)
			}
		}
	}
	sort.Strings(names)
	for _, n := range names {
		fn := e.funcs[n]
		t1 := time.Now()
		r := e.VerifyFunctionFor(fn, *safe, *prop)
		Discharge(r.Obls, *tmo, runtime.NumCPU())
		nd, nf, nu := 0, 0, 0
		for _, o := range r.Obls {
			switch o.Status {
			case "discharged":
				nd++
			case "failed":
				nf++
			default:
				nu++
			}
		}
		fmt.Printf("== %s: %d obligations, %d discharged, %d failed, %d undecided (%.1fs) %s\n", n, len(r.Obls), nd, nf, nu, time.Since(t1).Seconds(), r.Err)
		for _, w := range r.Warnings {
			fmt.Println("   warn:", w)
		}
		for _, o := range r.Obls {
			if o.Status != "discharged" || *verbose {
				fmt.Printf("   [%s] %s  %s  (%s %s %dms) %s %v\n", o.Status, o.Name, o.Pos, o.Res.Verdict, o.Res.Solver, o.Res.Ms, o.Expr, o.Extra)
				if *dump != "" && (o.Status != "discharged" || os.Getenv("DUMPALL") != "") {
					os.MkdirAll(*dump, 0o755)
					f := filepath.Join(*dump, sanitize(o.Name)+".smt2")
					writeFile(f, o.VC.script(o, true))
					if o.Res.Model != "" {
						writeFile(f+".model", o.Res.Model)
					}
				}
			}
		}
	}
}

func cmdSweep(args []string) {
	e, err := LoadEngine("/repo")
	if err != nil {
		fmt.Fprintln(os.Stderr, err)
		os.Exit(2)
	}
	e.LoadAllContracts("/verif")
	fns := e.sweepFunctions()
	total := 0
	t0 := time.Now()
	results := make([]*FnResult, len(fns))
	parallelDo(len(fns), runtime.NumCPU(), func(i int) { results[i] = e.verifySweep(fns[i]) })
	for i, r := range results {
		n := 0
		for _, o := range r.Obls {
			if o.Kind == "safe" {
				n++
			}
		}
		total += n
		if n > 100 || r.Err != "" {
			fmt.Printf("%-70s safe=%d defs=%d %s\n", fnName(fns[i]), n, len(r.VC.defs), r.Err)
		}
	}
	fmt.Printf("%d functions, %d safe obligations, generation %.1fs\n", len(fns), total, time.Since(t0).Seconds())
}

func cmdMods(args []string) {
	e, err := LoadEngine("/repo")
	if err != nil {
		fmt.Fprintln(os.Stderr, err)
		os.Exit(2)
	}
	e.LoadAllContracts("/verif")
	for _, a := range args {
		fn, ok := e.funcs[a]
		if !ok {
			fmt.Println(a, ": not found")
			continue
		}
		e.unresolved = map[string]int{}
		e.modsets = map[*ssa.Function]*ModSet{}
		ms := e.bodyMods(fn)
		for k, n := range e.unresolved {
			fmt.Printf("   unresolved %s x%d\n", k, n)
		}
		var names []string
		for _, m := range ms.list() {
			if e.inUniverse(m) {
				names = append(names, m)
			}
		}
		all := ""
		if ms.All {
			all = fmt.Sprintf(" ALL-except%v", ms.Except)
		}
		if os.Getenv("GENFRAMES") != "" {
			short := strings.Replace(a, "server.", "", 1)
			fmt.Printf("//@ func %s\n//@   modifies %s\n\n", short, strings.Join(names, ", "))
			continue
		}
		fmt.Printf("%s:%s %s\n", a, all, strings.Join(names, ", "))
	}
}
