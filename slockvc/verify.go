package main

import (
	"context"
	"fmt"
	"go/ast"
	"go/token"
	"go/types"
	"sort"
	"strings"

	"golang.org/x/tools/go/ssa"
)

type FnResult struct {
	Fn       string
	VC       *VC
	Obls     []*Obligation
	Warnings []string
	Err      string
	Instrs   int
}

// VerifyFunction generates all obligations for fn against its contract (if any).
func (e *Engine) VerifyFunction(fn *ssa.Function, safe bool) (res *FnResult) {
	return e.VerifyFunctionFor(fn, safe, "")
}

func (e *Engine) VerifyFunctionFor(fn *ssa.Function, safe bool, prop string) (res *FnResult) {
	return e.verifyWith(fn, safe, prop, 0)
}

func (e *Engine) verifyWith(fn *ssa.Function, safe bool, prop string, maxDepth int) (res *FnResult) {
	res = &FnResult{Fn: fnName(fn)}
	defer func() {
		if r := recover(); r != nil {
			res.Err = fmt.Sprintf("engine panic: %v", r)
			if res.VC != nil {
				res.Obls = res.VC.obls
			}
		}
	}()
	if fn.Blocks == nil {
		res.Err = "no body"
		return
	}
	vc := NewVC(e, fn)
	vc.safe = safe
	vc.prop = prop
	if maxDepth > 0 {
		vc.maxDepth = maxDepth
	}
	if maxDepth < 0 {
		// sweep mode: callees are inlined one level for their effects, safety obligations only for the function itself
		vc.maxDepth = 1
		vc.safeTopOnly = true
	}
	res.VC = vc
	c := e.contracts[fnName(fn)]
	if c != nil && c.SafeOn {
		vc.safe = true
	}
	vc.countNames = map[string]bool{}
	vc.lastNames = map[string]bool{}
	if c != nil {
		collect := func(e ast.Expr) {
			if e == nil {
				return
			}
			ast.Inspect(e, func(n ast.Node) bool {
				if ce, ok := n.(*ast.CallExpr); ok {
					if id, ok := ce.Fun.(*ast.Ident); ok && id.Name == "calls" && len(ce.Args) == 1 {
						vc.countNames[exprStr(ce.Args[0])] = true
					}
					if id, ok := ce.Fun.(*ast.Ident); ok && id.Name == "lastcall" && len(ce.Args) == 1 {
						vc.lastNames[exprStr(ce.Args[0])] = true
					}
				}
				return true
			})
		}
		for _, cl := range c.Ensures {
			collect(cl.Expr)
		}
		for _, sc := range c.Sites {
			collect(sc.Expr)
		}
		for _, group := range []map[int][]*Clause{c.LoopInv, c.LoopBack, c.LoopEntry} {
			for _, cls := range group {
				for _, cl := range cls {
					collect(cl.Expr)
				}
			}
		}
		// spec functions may hide calls(...): collect from all spec function bodies too
		for _, sf := range e.specFuncs {
			collect(sf.Body)
		}
	}
	for n := range vc.countNames {
		vc.mapSort("$calls_"+strings.ReplaceAll(n, ".", "__"), "Int")
	}
	for n := range vc.lastNames {
		vc.mapSort("$calls_$last_"+strings.ReplaceAll(n, ".", "__"), "Int")
		vc.mapSort("$calls_$tick", "Int")
	}
	fr := vc.newFrame(fn, 0, "")
	fr.isTop = true
	vc.stack = []*ssa.Function{fn}
	vc.mapSort("$alloc", "Int")
	heap := Heap{m: map[string]string{}, epoch: 0}
	vc.heap0 = heap
	var args []Val
	for _, p := range fn.Params {
		v := vc.freshVal("p_"+p.Name(), p.Type(), heap)
		args = append(args, v)
	}
	vc.topArgs = args
	for _, fv := range fn.FreeVars {
		fr.vals[fv] = vc.freshVal("fv_"+fv.Name(), fv.Type(), heap)
	}
	var pkg *types.Package
	if fn.Pkg != nil {
		pkg = fn.Pkg.Pkg
	}
	bind := map[string]Val{}
	for i, p := range fn.Params {
		bind[p.Name()] = args[i]
	}
	// global axioms
	for _, ax := range e.axioms {
		env := &Env{vc: vc, names: map[string]Val{}, heap: heap, old: heap, pkg: pkgTypes(e, ax.Pkg)}
		t, err := env.evalBool(ax.Expr)
		if err != nil {
			vc.specError(fn, &ax.Clause, err)
			continue
		}
		vc.assume("true", t, "axiom "+ax.Name)
	}
	if c != nil {
		for _, cl := range c.Requires {
			env := &Env{vc: vc, names: bind, heap: heap, old: heap, pkg: pkg}
			t, err := env.evalBool(cl.Expr)
			if err != nil {
				vc.specError(fn, cl, err)
				continue
			}
			vc.assume("true", t, "requires")
		}
		// vacuity guard: the preconditions must be satisfiable
		if len(c.Requires) > 0 {
			o := vc.oblige("cover", fnName(fn)+"/cover/requires", nil, "true", "true", fn, fn.Pos(), "requires satisfiable")
			o.Cut = len(vc.assumes)
		}
	}
	if c != nil && len(c.ModObj) > 0 {
		vc.frameObj = map[string][]string{}
		vc.frameWhole = map[string]bool{}
		for m := range e.contractWholeMods(c).Maps {
			vc.frameWhole[m] = true
		}
		for _, mo := range c.ModObj {
			env := &Env{vc: vc, names: bind, heap: heap, old: heap, pkg: pkg}
			ov, err := env.eval(mo.Expr)
			if err != nil {
				vc.specError(fn, &Clause{Src: mo.Src, File: c.File, Line: c.Line}, err)
				continue
			}
			obj := ov.T
			if ov.Typ != nil {
				if _, isSlice := ov.Typ.Underlying().(*types.Slice); isSlice {
					obj = sApp("s-arr", ov.T)
				}
			}
			for _, n := range e.resolveModName(c.Pkg, mo.Field) {
				if _, ok := vc.mapSorts[n]; !ok {
					e.declareMapByName(vc, n)
				}
				vc.frameObj[n] = append(vc.frameObj[n], obj)
			}
		}
	}
	// block reachability of the top-level function (for relevance filtering of assumptions)
	nb := len(fn.Blocks)
	vc.reachMat = make([][]bool, nb)
	for i := range vc.reachMat {
		vc.reachMat[i] = make([]bool, nb)
		stack := []*ssa.BasicBlock{fn.Blocks[i]}
		for len(stack) > 0 {
			x := stack[len(stack)-1]
			stack = stack[:len(stack)-1]
			for _, s2 := range x.Succs {
				if !vc.reachMat[i][s2.Index] {
					vc.reachMat[i][s2.Index] = true
					stack = append(stack, s2)
				}
			}
		}
	}
	vc.curTopBlock = -1
	fr.oldHeap = heap.clone()
	fr.run(args, "true", heap)
	res.Instrs = 20000 - vc.budget
	// postconditions per return
	if c != nil {
		for ri, r := range fr.rets {
			for i, cl := range c.Ensures {
				env := &Env{vc: vc, names: bind, heap: r.heap, old: fr.oldHeap, pkg: pkg, result: r.val, reach: r.reach}
				env.fr = fr
				env.at = fn.Blocks[r.block]
				env.atEnd = true
				env.sec = fr.secHeap
				t, err := env.evalBool(cl.Expr)
				if err != nil {
					vc.specError(fn, cl, err)
					continue
				}
				name := fmt.Sprintf("%s/post:%s/ret%d", fnName(fn), clauseId(cl, i), ri+1)
				vc.curTopBlock = r.block
				o := vc.oblige("post", name, cl.Tags, r.reach, t, fn, r.pos, cl.Src)
				if r.cut > 0 && r.cut < o.Cut {
					// assumptions made on later paths cannot matter at this return
					// (those created while evaluating the clause itself are range facts attached to definitions)
					o.Cut = r.cut
				}
				o.Extra = map[string]string{"contract": fmt.Sprintf("%s:%d", cl.File, cl.Line)}
				o.Spec = cl
			}
		}
		if len(fr.rets) > 0 && len(c.Ensures) > 0 {
			var rs []string
			for _, r := range fr.rets {
				rs = append(rs, r.reach)
			}
			vc.oblige("cover", fnName(fn)+"/cover/return", nil, sOr(rs...), "true", fn, fn.Pos(), "some return reachable")
		}
		// frame: syntactic check of the declared modifies clause
		if c.ModGiven && !c.ModAll {
			declared := e.contractMods(c)
			actual := e.bodyMods(fn)
			var extra []string
			if actual.All {
				if len(e.universe) == 0 {
					extra = append(extra, "<all: dynamic call without a frame>")
				}
				for _, u := range e.universe {
					if !strings.HasPrefix(u, "F_") {
						covered := false
						for _, pp := range actual.Except {
							if pp == "*" || strings.HasPrefix(u, pp) {
								covered = true
							}
						}
						if !covered {
							extra = append(extra, "<dynamic callee may modify "+u+"*>")
						}
					}
				}
				// a dynamic callee may modify every field map it does not promise to preserve: those must be declared
				for _, fm := range e.allFieldMaps() {
					if e.inUniverse(fm) && !matchPreserve(actual.Except, fm) && !declared.Maps[fm] {
						extra = append(extra, fm+"(dynamic callee)")
					}
				}
			}
			for _, m := range actual.list() {
				if !declared.Maps[m] && !isLocalOnlyMap(m) && e.inUniverse(m) {
					extra = append(extra, m)
				}
			}
			cond := "true"
			if len(extra) > 0 {
				cond = "false"
			}
			o := vc.oblige("frame", fnName(fn)+"/frame", nil, "true", cond, fn, fn.Pos(), "modifies "+strings.Join(c.Modifies, ", "))
			o.Extra = map[string]string{"undeclared": strings.Join(extra, " ")}
		}
	}
	// vacuity guard: the path condition of every block that carries an obligation must be satisfiable together with
	// the assumptions made before it (an inconsistent assumed contract would otherwise discharge everything after it)
	seenGuard := map[string]bool{}
	n0 := len(vc.obls)
	for i := 0; i < n0; i++ {
		o := vc.obls[i]
		switch o.Kind {
		case "site", "post", "pre@call", "inv-entry", "inv-pres", "frame-obj":
		default:
			continue
		}
		key := fmt.Sprintf("%s|%d", o.Guard, o.Cut)
		if seenGuard[o.Guard] || o.Guard == "true" || o.Guard == "false" {
			continue
		}
		seenGuard[o.Guard] = true
		_ = key
		c := vc.oblige("cover", fmt.Sprintf("%s/cover/path:%s", fnName(fn), o.Name), o.Tags, o.Guard, "true", fn, token.NoPos, "path to this obligation is feasible")
		c.Cut = o.Cut
		c.Pos = o.Pos
	}
	res.Obls = vc.obls
	res.Warnings = vc.warnings
	return
}

func pkgTypes(e *Engine, name string) *types.Package {
	if p, ok := e.pkgs[name]; ok {
		return p.Types
	}
	return nil
}

// maps that are only touched for freshly allocated objects are not part of the frame
func isLocalOnlyMap(m string) bool {
	return m == "$alloc"
}

// body modset ignoring the function's own contract
func (e *Engine) bodyMods(fn *ssa.Function) *ModSet {
	ms := &ModSet{Maps: map[string]bool{}}
	vis := map[*ssa.Function]bool{fn: true}
	for _, b := range fn.Blocks {
		for _, in := range b.Instrs {
			e.instrMods(in, ms, vis, nil, true)
		}
	}
	return ms
}

// Discharge runs the solvers on every obligation.
func Discharge(obls []*Obligation, timeoutMs int, workers int) {
	parallelDo(len(obls), workers, func(i int) {
		o := obls[i]
		if o.Kind == "spec-error" {
			o.Status = "failed"
			o.Res = SolverResult{Verdict: "spec-error"}
			return
		}
		if o.Kind != "cover" && (o.Cond == "true" || o.Guard == "false") {
			o.Status = "discharged"
			o.Res = SolverResult{Verdict: "unsat", Solver: "trivial"}
			return
		}
		if o.Kind == "frame" {
			if o.Cond == "true" {
				o.Status = "discharged"
				o.Res = SolverResult{Verdict: "unsat", Solver: "syntactic"}
			} else {
				o.Status = "failed"
				o.Res = SolverResult{Verdict: "sat", Solver: "syntactic"}
			}
			return
		}
		script := o.VC.script(o, true)
		var r SolverResult
		if o.Kind == "safe" && o.VC.safeTopOnly {
			r = runSolver(context.Background(), solvers[0], script, 2000)
		} else if o.Kind == "cover" && strings.Contains(o.Name, "/cover/path:") {
			// only a quick refutation matters here: unsat means the path assumptions are contradictory
			r = runSolver(context.Background(), solvers[0], script, 1500)
		} else {
			r = solve(script, timeoutMs, false)
		}
		o.Res = r
		if o.Kind == "cover" {
			switch r.Verdict {
			case "sat":
				o.Status = "discharged"
			case "unsat":
				o.Status = "failed" // vacuous
			default:
				o.Status = "discharged" // cannot decide satisfiability: do not alarm; recorded in evidence
				o.Res.Verdict = "cover-unknown"
			}
			return
		}
		switch r.Verdict {
		case "unsat":
			o.Status = "discharged"
		case "sat":
			o.Status = "failed"
		default:
			o.Status = "undecided"
		}
	})
}

func sortObls(obls []*Obligation) {
	sort.SliceStable(obls, func(i, j int) bool { return obls[i].Name < obls[j].Name })
}

var _ = token.NoPos

func clauseId(cl *Clause, i int) string {
	if len(cl.Tags) > 0 {
		return cl.Tags[0]
	}
	return fmt.Sprintf("#%d", i+1)
}
