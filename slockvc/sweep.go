package main

// C13: zero-annotation safety sweep. Every function that handles client-controlled bytes is translated with
// safety obligations on (index, slice, nil, type assertion, division, explicit panic). Callers' facts come from thin
// preconditions in the contract files; what does not discharge is not claimed.

import (
	"runtime"
	"sort"
	"strings"

	"golang.org/x/tools/go/ssa"
)

var sweepReceivers = []string{
	"server.Stream)", "server.StreamReaderBuffer)", "server.StreamWriterBuffer)",
	"server.BinaryServerProtocol)", "server.TextServerProtocol)", "server.TransparencyBinaryServerProtocol)", "server.TransparencyTextServerProtocol)",
	"server.LockManagerData)", "server.LockData)", "server.MemWaiterServerProtocol)", "server.ProxyServerProtocol)", "server.DefaultServerProtocol)",
	"server.Admin)", "server.Server)",
}

var sweepExtra = []string{
	"(*server.LockManager).ProcessLockData", "(*server.LockManager).ProcessAckLockData", "(*server.LockManager).ProcessRecoverLockData",
	"(*server.LockManager).ProcessExecuteLockCommand", "(*server.LockManager).GetLockData", "(*server.LockManager).AofLockData",
	"(*server.Lock).SaveRecoverData", "(*server.Lock).AddLockCommandData", "(*server.Lock).ClearLockCommandDatas",
}

func (e *Engine) sweepFunctions() []*ssa.Function {
	var out []*ssa.Function
	for name, fn := range e.funcs {
		if fn.Blocks == nil || !isInRepo(fn) {
			continue
		}
		// function literals are swept with the function that contains them (reply writers are closures)
		top := fn
		for top.Parent() != nil {
			top = top.Parent()
		}
		topName := fnName(top)
		if strings.HasPrefix(topName, "protocol.verif") {
			continue
		}
		sel := false
		if top.Pkg != nil && top.Pkg.Pkg.Name() == "protocol" && !strings.Contains(top.Pkg.Pkg.Path(), "protobuf") {
			sel = true
		}
		for _, r := range sweepReceivers {
			if strings.Contains(topName, r) {
				sel = true
			}
		}
		for _, x := range sweepExtra {
			if topName == x {
				sel = true
			}
		}
		_ = name
		if sel {
			out = append(out, fn)
		}
	}
	sort.Slice(out, func(i, j int) bool { return fnName(out[i]) < fnName(out[j]) })
	return out
}

func (cc *checkCtx) gatherSweep() {
	e := cc.e
	fns := e.sweepFunctions()
	results := make([]*FnResult, len(fns))
	parallelDo(len(fns), runtime.NumCPU(), func(i int) {
		results[i] = e.verifySweep(fns[i])
	})
	seen := map[string]bool{}
	for i, r := range results {
		cc.fns = append(cc.fns, fnName(fns[i]))
		if r.Err != "" {
			cc.warns = append(cc.warns, fnName(fns[i])+": "+r.Err)
		}
		for _, o := range r.Obls {
			if o.Kind != "safe" {
				continue
			}
			// the same instruction reached through several inlining paths is one obligation per path: keep all,
			// names are unique by construction
			if seen[o.Name] {
				continue
			}
			seen[o.Name] = true
			cc.obls = append(cc.obls, o)
		}
	}
}

func (e *Engine) verifySweep(fn *ssa.Function) *FnResult {
	return e.verifyWith(fn, true, "C13", -1)
}
