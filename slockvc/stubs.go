package main

func cmdCheck(args []string) int { return 2 }
func cmdLock(args []string) int  { return 2 }
