package main

func (cc *checkCtx) gatherSweep()                            {}
func (cc *checkCtx) extraEvidence(ev map[string]interface{}) {}
