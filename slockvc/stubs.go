package main

func (cc *checkCtx) extraEvidence(ev map[string]interface{}) {}
