package main

// Property check driver: selects the functions under contract for a property, discharges all
// obligations, compares with the committed lock file and known findings, writes evidence.

import (
	"encoding/json"
	"flag"
	"fmt"
	"os"
	"path/filepath"
	"regexp"
	"runtime"
	"sort"
	"strconv"
	"strings"
	"time"

	"golang.org/x/tools/go/ssa"
)

type KnownFinding struct {
	Property   string `json:"property"`
	Obligation string `json:"obligation"` // exact name or prefix ending in '*'
	What       string `json:"what"`
	Status     string `json:"status"` // finding | fixed
	Commit     string `json:"commit,omitempty"`
}

type LockFile struct {
	Property    string   `json:"property"`
	Obligations []string `json:"obligations"`
	Unclaimed   []string `json:"unclaimed"`
	DeadPaths   []string `json:"dead_paths"` // path covers that are unsatisfiable on the pinned tree (defensive code made unreachable by an invariant)
}

func hasPropTag(tags []string, prop string) bool {
	for _, t := range tags {
		if strings.HasPrefix(t, prop+".") {
			return true
		}
	}
	return false
}

func otherPropOnly(tags []string, prop string) bool {
	if len(tags) == 0 {
		return false
	}
	return !hasPropTag(tags, prop)
}

func contractHasProp(c *Contract, prop string) bool {
	for t := range c.Tags {
		if strings.HasPrefix(t, prop+".") {
			return true
		}
	}
	return false
}

func matchKnown(kfs []KnownFinding, prop, name string) *KnownFinding {
	for i := range kfs {
		k := &kfs[i]
		if k.Property != prop {
			continue
		}
		if k.Obligation == name || (strings.HasSuffix(k.Obligation, "*") && strings.HasPrefix(name, strings.TrimSuffix(k.Obligation, "*"))) {
			return k
		}
	}
	return nil
}

type checkCtx struct {
	e       *Engine
	prop    string
	tier    string
	verif   string
	repo    string
	obls    []*Obligation
	fns     []string
	warns   []string
	errors  []string
	assumed []string
}

func loadKnown(verif string) []KnownFinding {
	var kfs []KnownFinding
	b, err := os.ReadFile(filepath.Join(verif, "known_findings.json"))
	if err == nil {
		json.Unmarshal(b, &kfs)
	}
	return kfs
}

func loadLock(verif, prop string) *LockFile {
	lf := &LockFile{Property: prop}
	b, err := os.ReadFile(filepath.Join(verif, "obligations", prop+".lock"))
	if err == nil {
		json.Unmarshal(b, lf)
	}
	return lf
}

func (cc *checkCtx) gather() {
	e := cc.e
	var keys []string
	for k, c := range e.contracts {
		if c.External || c.NoVerify {
			continue
		}
		if contractHasProp(c, cc.prop) {
			keys = append(keys, k)
		}
	}
	// site clauses of an `inline` contract are checked in the context of each function that inlines it:
	// contracted callers of such a callee are verified under the property as well
	inlineTagged := map[string]bool{}
	for k, c := range e.contracts {
		if c.Inline && contractHasProp(c, cc.prop) {
			inlineTagged[k] = true
		}
	}
	if len(inlineTagged) > 0 {
		have := map[string]bool{}
		for _, k := range keys {
			have[k] = true
		}
		for k, c := range e.contracts {
			if have[k] || c.External || c.NoVerify || c.Trusted != "" || c.Inline {
				continue
			}
			fn, ok := e.funcs[k]
			if !ok || fn.Blocks == nil {
				continue
			}
			if e.callsInlineTagged(fn, inlineTagged, map[*ssa.Function]bool{}, 0) {
				keys = append(keys, k)
			}
		}
	}
	sort.Strings(keys)
	type job struct {
		key string
		fn  *ssa.Function
	}
	var jobs []job
	partial := map[string]bool{}
	for _, k := range keys {
		fn, ok := e.funcs[k]
		if !ok || fn.Blocks == nil {
			// contract target missing: one obligation per tagged clause
			c := e.contracts[k]
			if c.Trusted != "" {
				continue
			}
			vc := NewVC(e, nil)
			o := vc.oblige("target-missing", k+"/target-missing", []string{cc.prop + ".target"}, "true", "false", nil, 0, "function under contract not found in the current tree")
			o.Status = "failed"
			o.Res = SolverResult{Verdict: "target-missing"}
			cc.obls = append(cc.obls, o)
			continue
		}
		if e.contracts[k].Trusted != "" {
			// a trusted contract may still carry clauses tagged for this property: those are verified against the body
			// (the untagged part and the frame stay assumed)
			partial[k] = true
		}
		jobs = append(jobs, job{k, fn})
	}
	verified := map[string]bool{}
	primary := map[string]bool{}
	for _, j := range jobs {
		primary[j.key] = true
		verified[j.key] = true
	}
	for round := 0; len(jobs) > 0 && round < 8; round++ {
		results := make([]*FnResult, len(jobs))
		parallelDo(len(jobs), runtime.NumCPU(), func(i int) {
			results[i] = e.VerifyFunctionFor(jobs[i].fn, false, cc.prop)
		})
		var next []job
		for i, r := range results {
			verified[jobs[i].key] = true
			cc.fns = append(cc.fns, jobs[i].key)
			if r.Err != "" {
				cc.errors = append(cc.errors, jobs[i].key+": "+r.Err)
			}
			for _, w := range r.Warnings {
				cc.warns = append(cc.warns, jobs[i].key+": "+w)
			}
			for _, o := range r.Obls {
				if otherPropOnly(o.Tags, cc.prop) {
					continue
				}
				if partial[jobs[i].key] && !hasPropTag(o.Tags, cc.prop) {
					continue
				}
				if o.Kind == "safe" {
					// safety obligations of a `safe` contract belong to the properties the contract is tagged for
					c := e.contracts[jobs[i].key]
					if !(c.SafeOn && safeBelongs(c, cc.prop)) && cc.prop != "C13" {
						continue
					}
				}
				cc.obls = append(cc.obls, o)
			}
			if c := e.contracts[jobs[i].key]; c != nil {
				for _, sc := range c.Sites {
					if sc.Kind == "assume" {
						cc.assumed = append(cc.assumed, jobs[i].key+": assumed at call "+sc.Callee+": "+sc.Src)
					}
				}
			}
			if r.VC != nil {
				for a := range r.VC.usedAssumes {
					cc.assumed = append(cc.assumed, a)
				}
				for k := range r.VC.used {
					if c := e.contracts[k]; c != nil && c.Trusted != "" {
						cc.assumed = append(cc.assumed, k+": trusted contract ("+c.Trusted+")")
					}
				}
			}
			// modular closure: contracts relied upon at call sites must themselves be verified
			if r.VC != nil {
				for k := range r.VC.used {
					if verified[k] {
						continue
					}
					verified[k] = true
					if fn, ok := e.funcs[k]; ok && fn.Blocks != nil {
						if c := e.contracts[k]; c != nil && c.Trusted == "" && !c.NoVerify {
							next = append(next, job{k, fn})
						}
					}
				}
			}
		}
		sort.Slice(next, func(i, j int) bool { return next[i].key < next[j].key })
		jobs = next
	}
	// lemmas
	for _, lm := range e.lemmas {
		if !hasPropTag(lm.Tags, cc.prop) {
			continue
		}
		cc.obls = append(cc.obls, e.lemmaObligation(lm))
	}
}

// does fn reach (through uncontracted or inline callees only, i.e. code that is inlined into fn) a callee
// whose inline contract is tagged for the property?
func (e *Engine) callsInlineTagged(fn *ssa.Function, tagged map[string]bool, seen map[*ssa.Function]bool, depth int) bool {
	if seen[fn] || depth > 6 {
		return false
	}
	seen[fn] = true
	for _, b := range fn.Blocks {
		for _, in := range b.Instrs {
			ci, ok := in.(ssa.CallInstruction)
			if !ok {
				continue
			}
			callee := ci.Common().StaticCallee()
			if callee == nil || !isInRepo(callee) || callee.Blocks == nil {
				continue
			}
			k := fnName(callee)
			if tagged[k] {
				return true
			}
			if c := e.contracts[k]; c == nil || c.Inline {
				if e.callsInlineTagged(callee, tagged, seen, depth+1) {
					return true
				}
			}
		}
	}
	return false
}

func (e *Engine) lemmaObligation(lm *Lemma) *Obligation {
	vc := NewVC(e, nil)
	vc.mapSort("$alloc", "Int")
	heap := Heap{m: map[string]string{}}
	env := &Env{vc: vc, names: map[string]Val{}, heap: heap, old: heap, pkg: pkgTypes(e, lm.Pkg)}
	for _, ax := range e.axioms {
		aenv := &Env{vc: vc, names: map[string]Val{}, heap: heap, old: heap, pkg: pkgTypes(e, ax.Pkg)}
		if t, err := aenv.evalBool(ax.Expr); err == nil {
			vc.assume("true", t, "axiom "+ax.Name)
		}
	}
	for _, b := range lm.Binds {
		f := strings.Fields(b)
		if len(f) == 0 {
			continue
		}
		n := vc.free("lv_"+f[0], "Int")
		v := mathVal(n)
		if len(f) > 1 {
			if k, ok := wrapKinds[f[1]]; ok {
				vc.setRng(n, sAnd(sApp("<=", k.min(), n), sApp("<=", n, k.max())))
			} else if f[1] == "bool" {
				n = vc.free("lv_"+f[0], "Bool")
				v = boolVal(n)
			} else if f[1] == "nat" {
				vc.setRng(n, sApp("<=", "0", n))
			}
		}
		env.names[f[0]] = v
	}
	t, err := env.evalBool(lm.Expr)
	name := "lemma/" + lm.Name
	if err != nil {
		o := vc.oblige("spec-error", name, lm.Tags, "true", "false", nil, 0, lm.Src)
		o.Extra = map[string]string{"error": err.Error()}
		return o
	}
	o := vc.oblige("lemma", name, lm.Tags, "true", t, nil, 0, lm.Src)
	o.Extra = map[string]string{"contract": fmt.Sprintf("%s:%d", lm.File, lm.Line)}
	return o
}

func cmdCheck(args []string) int {
	fs := flag.NewFlagSet("check", flag.ExitOnError)
	prop := fs.String("prop", "", "property id")
	tier := fs.String("tier", "quick", "quick|thorough")
	repo := fs.String("repo", "/repo", "repository")
	verif := fs.String("verif", "/verif", "verif dir")
	writeLock := fs.Bool("write-lock", false, "rewrite the lock file from this run (maintenance, never used by registered checks)")
	verbose := fs.Bool("v", false, "verbose")
	fs.Parse(args)
	if *prop == "" {
		usage()
	}
	if t := os.Getenv("VERIF_TIER"); t != "" && *tier == "" {
		*tier = t
	}
	seed := 0
	if s := os.Getenv("VERIF_SEED"); s != "" {
		seed, _ = strconv.Atoi(s)
	}
	t0 := time.Now()
	evPath := filepath.Join(*verif, "evidence", *prop+".json")
	os.MkdirAll(filepath.Dir(evPath), 0o755)
	os.Remove(evPath)
	e, err := LoadEngine(*repo)
	if err != nil {
		fmt.Fprintf(os.Stderr, "slockvc: cannot load %s: %v\n", *repo, err)
		return 2
	}
	if err := e.LoadAllContracts(*verif); err != nil {
		fmt.Fprintf(os.Stderr, "slockvc: contracts: %v\n", err)
		return 2
	}
	cc := &checkCtx{e: e, prop: *prop, tier: *tier, verif: *verif, repo: *repo}
	cc.gather()
	if *prop == "C13" {
		cc.gatherSweep()
	}
	// the quick budget per obligation is generous on purpose: what is claimed discharges in well under a third of
	// it on the pinned tree (slower obligations are recorded as unclaimed when the lock file is written)
	timeout := 25000
	if *tier == "thorough" {
		timeout = 120000
	}
	kfs := loadKnown(*verif)
	lock := loadLock(*verif, *prop)
	if *tier == "quick" && !*writeLock {
		// obligations that did not discharge on the pinned tree are not claimed; do not spend the quick budget on them
		skip := map[string]bool{}
		for _, n := range lock.Unclaimed {
			skip[n] = true
		}
		for _, o := range cc.obls {
			if skip[o.Name] {
				o.Status = "undecided"
				o.Res = SolverResult{Verdict: "not-attempted-unclaimed"}
				o.Kind = "skip:" + o.Kind
			}
		}
	}
	var todo []*Obligation
	for _, o := range cc.obls {
		if !strings.HasPrefix(o.Kind, "skip:") {
			todo = append(todo, o)
		}
	}
	Discharge(todo, timeout, runtime.NumCPU())
	for _, o := range cc.obls {
		o.Kind = strings.TrimPrefix(o.Kind, "skip:")
	}
	sortObls(cc.obls)

	// a clause is claimed when one of its instances (per return, per loop edge, per call site) is: an instance that did not
	// exist on the pinned tree (a new path, a new call) and is not discharged violates the claimed clause
	lockedStem := map[string]bool{}
	for _, n := range lock.Obligations {
		if !strings.HasPrefix(n, "safe/") {
			lockedStem[clauseStem(n)] = true
		}
	}
	locked := map[string]bool{}
	for _, n := range lock.Obligations {
		locked[n] = true
	}
	deadOK := map[string]bool{}
	for _, n := range lock.DeadPaths {
		deadOK[n] = true
	}
	var deadSeen []string
	unclaimedOK := map[string]bool{}
	for _, n := range lock.Unclaimed {
		unclaimedOK[n] = true
	}

	if *writeLock {
		nl := &LockFile{Property: *prop}
		for _, o := range cc.obls {
			if o.Kind == "cover" {
				if o.Status == "failed" && strings.Contains(o.Name, "/cover/path:") {
					nl.DeadPaths = append(nl.DeadPaths, o.Name)
				}
				continue
			}
			if o.Status == "discharged" && o.Res.Ms > 6000 {
				// slow queries are the unstable ones: not claimed
				nl.Unclaimed = append(nl.Unclaimed, o.Name)
			} else if o.Status == "discharged" {
				nl.Obligations = append(nl.Obligations, o.Name)
			} else if matchKnown(kfs, *prop, o.Name) == nil {
				nl.Unclaimed = append(nl.Unclaimed, o.Name)
			}
		}
		sort.Strings(nl.Obligations)
		sort.Strings(nl.Unclaimed)
		sort.Strings(nl.DeadPaths)
		b, _ := json.MarshalIndent(nl, "", " ")
		os.MkdirAll(filepath.Join(*verif, "obligations"), 0o755)
		os.WriteFile(filepath.Join(*verif, "obligations", *prop+".lock"), append(b, '\n'), 0o644)
		fmt.Printf("lock file written: %d claimed, %d unclaimed\n", len(nl.Obligations), len(nl.Unclaimed))
		for _, n := range nl.Unclaimed {
			if strings.Contains(n, "/spec-error/") {
				// a clause that does not type-check is a defect of the contract file, not an open proof
				fmt.Printf("SPEC-ERROR (contract file): %s\n", n)
			}
		}
	}

	generated := map[string]bool{}
	violations := 0
	var vioLines, knownLines []string
	var unclaimed []string
	nObl, nDis := 0, 0
	bySolver := map[string]int{}
	var solverMs int64
	var samples []map[string]interface{}
	coverN, coverSat := 0, 0
	knownSeen := map[string]bool{}
	for _, o := range cc.obls {
		generated[o.Name] = true
		solverMs += o.Res.Ms
		if o.Kind == "cover" {
			coverN++
			if o.Res.Verdict == "sat" {
				coverSat++
			}
			if o.Status == "failed" && deadOK[o.Name] {
				deadSeen = append(deadSeen, o.Name)
				continue
			}
			if o.Status == "failed" {
				// vacuous precondition: the check itself is broken, report as violation of the machinery's own guard
				violations++
				p := cc.writeReplay(o, "vacuity guard: the assumptions on this path are contradictory", nil)
				vioLines = append(vioLines, fmt.Sprintf("VIOLATION property=%s replay=%s no-failing-input-found", *prop, p))
			}
			continue
		}
		if o.Status == "discharged" {
			nObl++
			nDis++
			bySolver[o.Res.Solver]++
			if len(samples) < 3 && o.Res.Solver != "trivial" && o.Kind != "safe" {
				samples = append(samples, map[string]interface{}{"obligation": o.Name, "kind": o.Kind, "clause": o.Expr, "at": o.Pos,
					"verdict": o.Res.Verdict, "solver": o.Res.Solver, "ms": o.Res.Ms})
			}
			continue
		}
		if k := matchKnown(kfs, *prop, o.Name); k != nil && k.Status == "finding" {
			if !knownSeen[k.Obligation] {
				knownSeen[k.Obligation] = true
				knownLines = append(knownLines, fmt.Sprintf("KNOWN-FINDING: property=%s %s %s", *prop, k.Obligation, k.What))
			}
			continue
		}
		// not discharged, not a listed finding
		rep := cc.tryReplay(o)
		switch {
		case rep != nil && rep.Reproduced && !unclaimedOK[o.Name]:
			// (an obligation recorded as unclaimed on the pinned tree needs facts from its callers: a counterexample
			// that replays against the function alone says the function has a precondition, not that a client can
			// reach it - it stays in the unclaimed list, marked as reproduced at function level)
			nObl++
			violations++
			p := cc.writeReplay(o, "counterexample reproduced on the real code", rep)
			vioLines = append(vioLines, fmt.Sprintf("VIOLATION property=%s replay=%s", *prop, p))
		case locked[o.Name]:
			nObl++
			violations++
			why := "obligation discharged on the pinned tree and is no longer discharged"
			p := cc.writeReplay(o, why, rep)
			vioLines = append(vioLines, fmt.Sprintf("VIOLATION property=%s replay=%s no-failing-input-found", *prop, p))
		case !unclaimedOK[o.Name] && (o.Kind == "post" || o.Kind == "site" || strings.HasPrefix(o.Kind, "inv-")) && lockedStem[clauseStem(o.Name)] && !*writeLock:
			nObl++
			violations++
			why := "a new instance (path, loop edge or call site that did not exist on the pinned tree) of a clause claimed for this property is not discharged"
			p := cc.writeReplay(o, why, rep)
			vioLines = append(vioLines, fmt.Sprintf("VIOLATION property=%s replay=%s no-failing-input-found", *prop, p))
		default:
			note := ""
			if rep != nil && rep.Reproduced {
				note = " reproduced at function level (needs a caller fact)"
			} else if rep != nil {
				note = " replay: " + rep.Note
				if os.Getenv("SLOCKVC_DEBUG") != "" {
					cc.writeReplay(o, "debug", rep)
				}
			}
			unclaimed = append(unclaimed, o.Name+" ["+o.Res.Verdict+"]"+note)
		}
	}
	// obligations of the lock file that were not generated (contract target or clause disappeared)
	var missing []string
	for _, n := range lock.Obligations {
		if !generated[n] && !strings.HasPrefix(n, "safe/") && !strings.Contains(n, "/frame-obj/") {
			missing = append(missing, n)
		}
	}
	for _, n := range missing {
		violations++
		nObl++
		o := &Obligation{Name: n, Kind: "missing", Res: SolverResult{Verdict: "not-generated"}}
		p := cc.writeReplay(o, "obligation of the lock file was not generated from the current tree (function, loop or call site under contract changed shape or disappeared)", nil)
		vioLines = append(vioLines, fmt.Sprintf("VIOLATION property=%s replay=%s no-failing-input-found", *prop, p))
	}
	for _, er := range cc.errors {
		fmt.Println("ENGINE-ERROR:", er)
	}
	for _, l := range knownLines {
		fmt.Println(l)
	}
	for _, l := range vioLines {
		fmt.Println(l)
	}
	if *verbose {
		for _, o := range cc.obls {
			if o.Res.Ms > 2000 {
				fmt.Printf("slow: %s %s %s %dms\n", o.Name, o.Res.Verdict, o.Res.Solver, o.Res.Ms)
			}
		}
		for _, u := range unclaimed {
			fmt.Println("unclaimed:", u)
		}
		for _, w := range cc.warns {
			fmt.Println("warn:", w)
		}
	}
	cleanupScratch()
	wall := time.Since(t0).Seconds()
	// evidence
	trusted := []string{
		"golang.org/x/tools v0.29.0 go/ssa builder and go/types (translation front end)",
		"z3 4.8.12, z3 5.1.0 (z3-new), cvc5 1.0 (first definitive answer accepted in the quick tier)",
		"slockvc VC generator (this repository): heap model component-as-array, Int encoding with exact wrap-around, 64-bit int/uint",
		"externals: only memory reachable from arguments is modified (DESIGN 2.7); sync.Mutex/PriorityMutex provide mutual exclusion",
		"go statements, channel operations and timers are not modelled (DESIGN 2.1)",
		"loops without an invariant are cut with invariant 'true' (sound, weak); termination is not proved",
	}
	for _, a := range dedup(cc.assumed) {
		trusted = append(trusted, "assumed, not verified: "+a)
	}
	if len(samples) == 0 {
		for _, o := range cc.obls {
			if len(samples) < 3 && o.Status == "discharged" {
				samples = append(samples, map[string]interface{}{"obligation": o.Name, "kind": o.Kind, "clause": o.Expr, "at": o.Pos, "verdict": o.Res.Verdict, "solver": o.Res.Solver})
			}
		}
	}
	level := "proof"
	ev := map[string]interface{}{
		"property_id": *prop,
		"tier":        *tier,
		"seed":        seed,
		"level":       level,
		"coverage": map[string]interface{}{
			"obligations":              nObl,
			"discharged":               nDis,
			"checker_cmd":              "z3-new -in -t:<ms> | z3 -in -t:<ms> | cvc5 --lang=smt2 --produce-models --tlimit=<ms>  (one SMT-LIB script per obligation, cone-of-influence sliced)",
			"trusted_base":             trusted,
			"samples":                  samples,
			"functions_under_contract": cc.fns,
			"by_solver":                bySolver,
			"solver_ms_total":          solverMs,
			"cover_queries":            coverN,
			"cover_sat":                coverSat,
			"known_findings":           knownLines,
			"unproved_unclaimed":       unclaimed,
			"engine_warnings":          dedup(cc.warns),
			"lock_file_obligations":    len(lock.Obligations),
			"missing_from_lock":        missing,
			"dead_paths":               deadSeen,
			"bounded":                  []string{},
		},
		"assumptions": propAssumptions(*prop),
		"wall_s":      wall,
		"violations":  violations,
	}
	cc.extraEvidence(ev)
	b, _ := json.MarshalIndent(ev, "", " ")
	os.WriteFile(evPath, append(b, '\n'), 0o644)
	fmt.Printf("property %s tier %s: %d obligations, %d discharged, %d known findings, %d unclaimed, %d violations, %.1fs\n",
		*prop, *tier, nObl, nDis, len(knownLines), len(unclaimed), violations, wall)
	if nObl == 0 {
		fmt.Println("ENGINE-ERROR: no obligations generated")
		return 2
	}
	if violations > 0 {
		return 1
	}
	if len(cc.errors) > 0 {
		return 2
	}
	return 0
}

func dedup(xs []string) []string {
	seen := map[string]bool{}
	var out []string
	for _, x := range xs {
		if !seen[x] {
			seen[x] = true
			out = append(out, x)
		}
	}
	if out == nil {
		out = []string{}
	}
	return out
}

type ReplayResult struct {
	Reproduced bool   `json:"reproduced"`
	Attempted  bool   `json:"attempted"`
	Note       string `json:"note"`
	TestSource string `json:"test_source,omitempty"`
	TestOutput string `json:"test_output,omitempty"`
}

func (cc *checkCtx) writeReplay(o *Obligation, why string, rep *ReplayResult) string {
	dir := filepath.Join(cc.verif, "replays", cc.prop)
	os.MkdirAll(dir, 0o755)
	p := filepath.Join(dir, sanitize(o.Name)+".json")
	if len(p) > 200 {
		p = p[:190] + ".json"
	}
	m := map[string]interface{}{
		"property":   cc.prop,
		"obligation": o.Name,
		"kind":       o.Kind,
		"function":   o.Fn,
		"at":         o.Pos,
		"clause":     o.Expr,
		"why":        why,
		"verdict":    o.Res.Verdict,
		"solver":     o.Res.Solver,
		"extra":      o.Extra,
	}
	if o.Res.Raw != "" {
		raw := o.Res.Raw
		if len(raw) > 20000 {
			raw = raw[:20000] + "...(truncated)"
		}
		m["solver_output"] = raw
	}
	if o.VC != nil && o.Kind != "missing" && o.Kind != "target-missing" && o.Kind != "frame" && o.Kind != "spec-error" {
		s := o.VC.script(o, true)
		if len(s) < 400000 {
			m["smt_script"] = s
		}
	}
	if rep != nil {
		m["replay"] = rep
	}
	b, _ := json.MarshalIndent(m, "", " ")
	os.WriteFile(p, b, 0o644)
	return p
}

func cmdLock(args []string) int { return 2 }

// safeBelongs: do the safety obligations of a `safe` contract count for property prop
func safeBelongs(c *Contract, prop string) bool {
	if len(c.SafeProps) > 0 {
		for _, p := range c.SafeProps {
			if p == prop {
				return true
			}
		}
		return false
	}
	return contractHasProp(c, prop)
}

var stemRe = regexp.MustCompile(`/(ret|edge)\d+|#\d+`)

// the name of an obligation without its instance ordinals (return number, loop edge number, call-site ordinal)
func clauseStem(n string) string {
	return stemRe.ReplaceAllString(n, "")
}
