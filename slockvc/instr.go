package main

import (
	"fmt"
	"go/token"
	"go/types"
	"math/big"
	"strings"

	"golang.org/x/tools/go/ssa"
)

func (fr *Frame) set(v ssa.Value, x Val) {
	fr.vals[v] = x
}

func (fr *Frame) setNamed(v ssa.Value, x Val) {
	if x.Elems == nil && x.T != "" && x.Loc == nil {
		x = fr.vc.namedVal(v.Name(), x)
	}
	fr.vals[v] = x
}

func (fr *Frame) instr(in ssa.Instruction) {
	vc := fr.vc
	switch x := in.(type) {
	case *ssa.DebugRef:
	case *ssa.Alloc:
		fr.doAlloc(x)
	case *ssa.FieldAddr:
		base := fr.val(x.X)
		pt := x.X.Type().Underlying().(*types.Pointer).Elem()
		st := pt.Underlying().(*types.Struct)
		ft := st.Field(x.Field).Type()
		res := Val{Typ: x.Type()}
		if base.Loc != nil && base.Loc.Kind != locCell {
			res.Loc = &Loc{Kind: locSub, Parent: base.Loc, Field: x.Field, SI: vc.structInfoOf(pt), Typ: ft}
		} else {
			fr.nonNil(base, x.Pos())
			res.Loc = vc.fieldLoc(pt, x.Field, base.T)
		}
		fr.set(x, res)
	case *ssa.Field:
		base := fr.val(x.X)
		si := vc.structInfoOf(x.X.Type())
		fr.setNamed(x, Val{T: sApp(si.fields[x.Field], base.T), Typ: x.Type()})
	case *ssa.IndexAddr:
		fr.doIndexAddr(x)
	case *ssa.Index:
		base := fr.val(x.X)
		idx := fr.val(x.Index)
		switch t := x.X.Type().Underlying().(type) {
		case *types.Array:
			fr.safeObl("index", sAnd(sApp("<=", "0", idx.T), sApp("<", idx.T, sInt(t.Len()))), x.Pos(), "array index")
			r := Val{T: sApp("select", base.T, idx.T), Typ: x.Type()}
			r = vc.namedVal(x.Name(), r)
			vc.setRng(r.T, vc.wf(r.T, x.Type(), ""))
			fr.set(x, r)
		default:
			if isString(x.X.Type()) {
				fr.safeObl("index", sAnd(sApp("<=", "0", idx.T), sApp("<", idx.T, sApp("slen", base.T))), x.Pos(), "string index")
				fr.setNamed(x, Val{T: sApp("sat", base.T, idx.T), Typ: x.Type(), Mask: big.NewInt(255)})
			} else {
				fr.set(x, vc.freshVal(x.Name(), x.Type(), fr.heap))
			}
		}
	case *ssa.UnOp:
		fr.doUnOp(x)
	case *ssa.BinOp:
		a, b := fr.val(x.X), fr.val(x.Y)
		r := vc.binop(x.Op, a, b, x.Type(), fr, x.Pos())
		fr.setNamed(x, r)
	case *ssa.Store:
		addr := fr.val(x.Addr)
		v := fr.val(x.Val)
		fr.store(addr, v, x.Pos())
	case *ssa.Convert:
		r := vc.convert(fr.val(x.X), x.Type(), &fr.heap, fr.curReach)
		fr.setNamed(x, r)
	case *ssa.ChangeType:
		v := fr.val(x.X)
		v.Typ = x.Type()
		fr.set(x, v)
	case *ssa.ChangeInterface:
		v := fr.val(x.X)
		v.Typ = x.Type()
		fr.set(x, v)
	case *ssa.MultiConvert:
		fr.set(x, vc.freshVal(x.Name(), x.Type(), fr.heap))
	case *ssa.MakeInterface:
		fr.doMakeInterface(x)
	case *ssa.TypeAssert:
		fr.doTypeAssert(x)
	case *ssa.Extract:
		t := fr.val(x.Tuple)
		if x.Index < len(t.Elems) {
			fr.set(x, t.Elems[x.Index])
		} else {
			fr.set(x, vc.freshVal(x.Name(), x.Type(), fr.heap))
		}
	case *ssa.Slice:
		fr.doSlice(x)
	case *ssa.MakeSlice:
		l, c := fr.val(x.Len), fr.val(x.Cap)
		fr.safeObl("makeslice", sAnd(sApp("<=", "0", l.T), sApp("<=", l.T, c.T)), x.Pos(), "make([]T, len, cap)")
		el := x.Type().Underlying().(*types.Slice).Elem()
		ref := vc.newRef(&fr.heap, "new_"+x.Name())
		loc := vc.elemLoc(el, ref, "0")
		zero := "((as const (Array Int " + vc.sortOf(el) + ")) " + vc.zeroOf(el) + ")"
		vc.hset(&fr.heap, loc.Map, sApp("store", vc.hget(fr.heap, loc.Map), ref, zero))
		r := Val{T: sApp("mk-slice", ref, "0", l.T, c.T), Typ: x.Type()}
		if lc, ok := litInt(l.T); ok && lc.IsInt64() {
			r.CLen = lc.Int64() + 1
		}
		fr.setNamed(x, r)
		if nv := fr.vals[x]; true {
			nv.CLen = r.CLen
			fr.vals[x] = nv
		}
	case *ssa.MakeMap:
		ref := vc.newRef(&fr.heap, "new_"+x.Name())
		mt := x.Type().Underlying().(*types.Map)
		hm, _ := vc.mapHeaps(mt)
		vc.hset(&fr.heap, hm, sApp("store", vc.hget(fr.heap, hm), ref, "((as const (Array "+vc.keySort(mt.Key())+" Bool)) false)"))
		fr.set(x, Val{T: ref, Typ: x.Type()})
	case *ssa.MakeChan:
		ref := vc.newRef(&fr.heap, "new_"+x.Name())
		fr.set(x, Val{T: ref, Typ: x.Type()})
		// the capacity of a channel never changes: an uninterpreted function of the channel (spec builtin chancap)
		vc.declFun("chancap", "(Int) Int")
		vc.assume(fr.curReach, sEq(sApp("chancap", ref), fr.val(x.Size).T), "channel capacity")
	case *ssa.MakeClosure:
		fn := x.Fn.(*ssa.Function)
		var binds []Val
		for _, b := range x.Bindings {
			binds = append(binds, fr.val(b))
		}
		fr.set(x, Val{T: vc.funcRef(fn), Typ: x.Type(), Fn: fn, Bind: binds})
	case *ssa.Lookup:
		fr.doLookup(x)
	case *ssa.MapUpdate:
		m := fr.val(x.Map)
		mt := x.Map.Type().Underlying().(*types.Map)
		fr.safeObl("nilmap", sNot(sEq(m.T, "0")), x.Pos(), "assignment to entry in nil map")
		if fr.curReach != "" && fr.curReach != "false" {
			// execution continues past the store only when the map is not nil (the nil case is the obligation above)
			vc.assume(fr.curReach, sNot(sEq(m.T, "0")), "stored into")
		}
		hm, vm := vc.mapHeaps(mt)
		k := vc.keyTerm(fr.val(x.Key), mt.Key())
		cur := vc.hget(fr.heap, hm)
		vc.hset(&fr.heap, hm, sApp("store", cur, m.T, sApp("store", sApp("select", cur, m.T), k, "true")))
		curv := vc.hget(fr.heap, vm)
		vc.hset(&fr.heap, vm, sApp("store", curv, m.T, sApp("store", sApp("select", curv, m.T), k, fr.val(x.Value).T)))
	case *ssa.Range:
		fr.set(x, Val{T: fr.val(x.X).T, Typ: x.X.Type()})
	case *ssa.Next:
		fr.doNext(x)
	case *ssa.Call:
		r := fr.doCall(x.Common(), x, x.Pos())
		fr.set(x, r)
	case *ssa.Go:
		// spawned function runs later: no effect on this section (see DESIGN 2.1 #1); site clauses see the spawn as a call site
		if f, ok := x.Call.Value.(*ssa.Function); ok && fr.contract != nil {
			var args []Val
			for _, a := range x.Call.Args {
				args = append(args, fr.val(a))
			}
			name := fnName(f)
			short := calleeShort(name)
			fr.callOrd[short]++
			fr.curQual = calleeQual(name)
			fr.countCall(short)
			if fr.curQual != short {
				fr.countCall(fr.curQual) // a package-level function has no qualified name of its own: count it once
			}
			fr.siteClauses(short, fr.callOrd[short], "before", args, f, Val{}, x.Pos())
		}
	case *ssa.Defer:
		fr.defers = append(fr.defers, deferRec{x, fr.curReach})
	case *ssa.RunDefers:
		fr.runDefers()
	case *ssa.Send:
		// channel sends are visible to contracts as the path counter calls(chansend) and as the call site "chansend"
		// (arg0 the channel, arg1 the value sent)
		if fr.contract != nil && len(fr.contract.Sites) > 0 {
			fr.callOrd["chansend"]++
			fr.curQual = "chansend"
			fr.countCall("chansend")
			fr.siteClauses("chansend", fr.callOrd["chansend"], "before", []Val{fr.val(x.Chan), fr.val(x.X)}, nil, Val{}, x.Pos())
		} else {
			fr.countCall("chansend")
		}
	case *ssa.Select:
		fr.set(x, vc.freshVal(x.Name(), x.Type(), fr.heap))
	case *ssa.Panic:
		if vc.safe {
			fr.safeObl("panic", "false", x.Pos(), "explicit panic")
		}
		fr.panicked = true
	case *ssa.If:
		c := fr.val(x.Cond)
		b := fr.curBlock
		t, f := b.Succs[0], b.Succs[1]
		if t == f {
			fr.edge[[2]int{b.Index, t.Index}] = fr.curReach
		} else {
			fr.edge[[2]int{b.Index, t.Index}] = sAnd(fr.curReach, c.T)
			fr.edge[[2]int{b.Index, f.Index}] = sAnd(fr.curReach, sNot(c.T))
		}
	case *ssa.Jump:
		b := fr.curBlock
		fr.edge[[2]int{b.Index, b.Succs[0].Index}] = fr.curReach
	case *ssa.Return:
		var rv Val
		if len(x.Results) == 1 {
			rv = fr.val(x.Results[0])
		} else if len(x.Results) > 1 {
			rv = Val{Typ: fr.fn.Signature.Results()}
			for _, r := range x.Results {
				rv.Elems = append(rv.Elems, fr.val(r))
			}
		}
		fr.rets = append(fr.rets, retRec{len(vc.assumes), fr.curReach, rv, fr.heap, x.Pos(), fr.curBlock.Index})
	default:
		vc.warn("unsupported instruction %T in %s", in, fnName(fr.fn))
		if v, ok := in.(ssa.Value); ok {
			fr.set(v, vc.freshVal(v.Name(), v.Type(), fr.heap))
		}
	}
}

func (fr *Frame) doAlloc(x *ssa.Alloc) {
	vc := fr.vc
	el := x.Type().Underlying().(*types.Pointer).Elem()
	ref := vc.newRef(&fr.heap, "new_"+x.Name())
	res := Val{T: ref, Typ: x.Type()}
	switch u := el.Underlying().(type) {
	case *types.Struct:
		for i := 0; i < u.NumFields(); i++ {
			l := vc.fieldLoc(el, i, ref)
			vc.storeLoc(&fr.heap, l, vc.zeroOf(u.Field(i).Type()))
		}
	case *types.Array:
		l := vc.elemLoc(u.Elem(), ref, "0")
		zero := "((as const (Array Int " + vc.sortOf(u.Elem()) + ")) " + vc.zeroOf(u.Elem()) + ")"
		vc.hset(&fr.heap, l.Map, sApp("store", vc.hget(fr.heap, l.Map), ref, zero))
	default:
		l := vc.cellLoc(el, ref)
		vc.storeLoc(&fr.heap, l, vc.zeroOf(el))
		res.Loc = l
		if isPrivateCell(x) {
			if vc.privCells == nil {
				vc.privCells = map[string]*Loc{}
			}
			vc.privCells[ref] = l
		}
	}
	fr.set(x, res)
}

// isPrivateCell: a local variable cell whose address never leaves the function: it is only loaded and stored, here and in
// function literals that are themselves only deferred or called directly. No callee can write such a cell, so its content
// survives the havoc of a call (a modular call of a literal that binds it suspends this, see callFunc).
func isPrivateCell(x *ssa.Alloc) bool {
	return cellUsesPrivate(x, 0)
}

func cellUsesPrivate(v ssa.Value, depth int) bool {
	if depth > 2 || v.Referrers() == nil {
		return false
	}
	for _, r := range *v.Referrers() {
		switch u := r.(type) {
		case *ssa.DebugRef:
		case *ssa.Store:
			if u.Val == v {
				return false
			}
		case *ssa.UnOp:
			if u.Op != token.MUL {
				return false
			}
		case *ssa.MakeClosure:
			if u.Referrers() == nil {
				return false
			}
			for _, cr := range *u.Referrers() {
				switch cu := cr.(type) {
				case *ssa.Defer:
					if cu.Call.Value != u {
						return false
					}
				case *ssa.Call:
					if cu.Call.Value != u {
						return false
					}
				case *ssa.DebugRef:
				default:
					return false
				}
			}
			fn, ok := u.Fn.(*ssa.Function)
			if !ok {
				return false
			}
			for i, b := range u.Bindings {
				if b == v {
					if i >= len(fn.FreeVars) || !cellUsesPrivate(fn.FreeVars[i], depth+1) {
						return false
					}
				}
			}
		default:
			return false
		}
	}
	return true
}

func (fr *Frame) doIndexAddr(x *ssa.IndexAddr) {
	vc := fr.vc
	base := fr.val(x.X)
	idx := fr.val(x.Index)
	res := Val{Typ: x.Type()}
	switch t := x.X.Type().Underlying().(type) {
	case *types.Slice:
		fr.safeObl("index", sAnd(sApp("<=", "0", idx.T), sApp("<", idx.T, sApp("s-len", base.T))), x.Pos(), "slice index")
		res.Loc = vc.elemLoc(t.Elem(), sApp("s-arr", base.T), sApp("+", sApp("s-off", base.T), idx.T))
		if lo, ok := litInt(sApp("s-off", base.T)); ok && lo.Sign() == 0 {
			res.Loc.Idx = idx.T
		}
	case *types.Pointer:
		at := t.Elem().Underlying().(*types.Array)
		fr.safeObl("index", sAnd(sApp("<=", "0", idx.T), sApp("<", idx.T, sInt(at.Len()))), x.Pos(), "array index")
		if base.Loc != nil && base.Loc.Kind != locCell {
			res.Loc = &Loc{Kind: locIdx, Parent: base.Loc, Idx: idx.T, Typ: at.Elem()}
		} else {
			fr.nonNil(base, x.Pos())
			res.Loc = vc.elemLoc(at.Elem(), base.T, idx.T)
		}
	default:
		vc.warn("IndexAddr on %s", x.X.Type())
		res = vc.freshVal(x.Name(), x.Type(), fr.heap)
	}
	fr.set(x, res)
}

func (fr *Frame) load(addr Val, pos token.Pos, hint string) Val {
	vc := fr.vc
	pt, ok := addr.Typ.Underlying().(*types.Pointer)
	if !ok {
		return vc.freshVal(hint, addr.Typ, fr.heap)
	}
	el := pt.Elem()
	extErr := addr.Glob != nil && isExternalErrorGlobal(addr.Glob)
	if addr.Glob != nil && (vc.e.roGlobals[addr.Glob] || extErr) {
		// a package-level variable that is written only by package initialisation: a constant
		n := "gval$" + sanitize(normName(addr.Glob.String()))
		if _, ok := vc.defIdx[n]; !ok {
			if _, isStruct := el.Underlying().(*types.Struct); !isStruct {
				d := &Def{Name: n, Sort: vc.sortOf(el)}
				d.Rng = vc.wf(n, el, "")
				if vc.e.nonNilGlobal[addr.Glob] || extErr {
					d.Rng = sAnd(d.Rng, sNot(sEq(sApp("i-tag", n), "0")))
				}
				if ln, ok := vc.e.globalSliceLen[addr.Glob]; ok && vc.e.roGlobals[addr.Glob] {
					d.Rng = sAnd(d.Rng, sEq(sApp("s-len", n), sInt(ln)), sNot(sEq(sApp("s-arr", n), "0")))
				}
				vc.defs = append(vc.defs, d)
				vc.defIdx[n] = d
			}
		}
		if _, ok := vc.defIdx[n]; ok {
			r := Val{T: n, Typ: el}
			vc.attachPtrLoc(&r)
			return r
		}
	}
	if addr.Loc != nil {
		if addr.Loc.Kind == locCell {
			fr.nonNil(addr, pos)
		}
		t := vc.loadLoc(fr.heap, addr.Loc)
		r := vc.namedVal(hint, Val{T: t, Typ: el})
		vc.setRng(r.T, vc.wf(r.T, el, vc.alloc(fr.heap)))
		if k, ok := intInfo(el); ok && !k.signed {
			r.Mask = maskOfType(k)
		}
		vc.attachPtrLoc(&r)
		return r
	}
	switch u := el.Underlying().(type) {
	case *types.Struct:
		fr.nonNil(addr, pos)
		return vc.namedVal(hint, Val{T: vc.loadStruct(fr.heap, el, addr.T), Typ: el})
	case *types.Array:
		fr.nonNil(addr, pos)
		l := vc.elemLoc(u.Elem(), addr.T, "0")
		return vc.namedVal(hint, Val{T: sApp("select", vc.hget(fr.heap, l.Map), addr.T), Typ: el})
	}
	l := vc.cellLoc(el, addr.T)
	fr.nonNil(addr, pos)
	r := vc.namedVal(hint, Val{T: vc.loadLoc(fr.heap, l), Typ: el})
	vc.setRng(r.T, vc.wf(r.T, el, vc.alloc(fr.heap)))
	vc.attachPtrLoc(&r)
	return r
}

func (fr *Frame) store(addr Val, v Val, pos token.Pos) {
	vc := fr.vc
	pt, ok := addr.Typ.Underlying().(*types.Pointer)
	if !ok {
		vc.warn("store through non-pointer")
		return
	}
	el := pt.Elem()
	val := v.T
	if v.Loc != nil && v.Loc.Kind != locCell {
		// storing an interior pointer: abstract its identity
		vc.warn("interior pointer stored to memory in %s: abstracted", fnName(fr.fn))
		val = vc.free("iptr", "Int")
		vc.setRng(val, sApp("<", "0", val))
	}
	if addr.Loc != nil {
		if addr.Loc.Kind == locCell {
			fr.nonNil(addr, pos)
		}
		vc.storeLoc(&fr.heap, addr.Loc, val)
		return
	}
	switch u := el.Underlying().(type) {
	case *types.Struct:
		fr.nonNil(addr, pos)
		vc.storeStruct(&fr.heap, el, addr.T, val)
		return
	case *types.Array:
		fr.nonNil(addr, pos)
		l := vc.elemLoc(u.Elem(), addr.T, "0")
		vc.hset(&fr.heap, l.Map, sApp("store", vc.hget(fr.heap, l.Map), addr.T, val))
		return
	}
	fr.nonNil(addr, pos)
	vc.storeLoc(&fr.heap, vc.cellLoc(el, addr.T), val)
}

func (fr *Frame) doUnOp(x *ssa.UnOp) {
	vc := fr.vc
	a := fr.val(x.X)
	switch x.Op {
	case token.MUL:
		fr.set(x, fr.load(a, x.Pos(), x.Name()))
	case token.NOT:
		fr.setNamed(x, Val{T: sNot(a.T), Typ: x.Type()})
	case token.SUB:
		if k, ok := intInfo(x.Type()); ok {
			fr.setNamed(x, Val{T: vc.wrap1(sApp("-", "0", a.T), k), Typ: x.Type()})
		} else {
			fr.set(x, vc.freshVal(x.Name(), x.Type(), fr.heap))
		}
	case token.XOR:
		if k, ok := intInfo(x.Type()); ok {
			if k.signed {
				fr.setNamed(x, Val{T: sApp("-", sApp("-", "0", a.T), "1"), Typ: x.Type()})
			} else {
				fr.setNamed(x, Val{T: sApp("-", k.max(), a.T), Typ: x.Type()})
			}
		} else {
			fr.set(x, vc.freshVal(x.Name(), x.Type(), fr.heap))
		}
	case token.ARROW:
		// a channel receive may block: contracts address it as the call site "chanrecv" (site clauses, calls(chanrecv))
		if fr.contract != nil {
			fr.callOrd["chanrecv"]++
			fr.curQual = "chanrecv"
			fr.countCall("chanrecv")
			fr.siteClauses("chanrecv", fr.callOrd["chanrecv"], "before", []Val{a}, nil, Val{}, x.Pos())
		}
		fr.set(x, vc.freshVal(x.Name(), x.Type(), fr.heap))
	default:
		fr.set(x, vc.freshVal(x.Name(), x.Type(), fr.heap))
	}
}

func (vc *VC) typeId(t types.Type) string {
	k := normName(types.TypeString(t, nil))
	vc.e.mu.Lock()
	defer vc.e.mu.Unlock()
	id, ok := vc.e.typeIds[k]
	if !ok {
		id = len(vc.e.typeIds) + 1
		vc.e.typeIds[k] = id
	}
	return sInt(int64(id))
}

func (fr *Frame) doMakeInterface(x *ssa.MakeInterface) {
	vc := fr.vc
	v := fr.val(x.X)
	tag := vc.typeId(x.X.Type())
	var payload string
	if isRefLike(x.X.Type()) && (v.Loc == nil || v.Loc.Kind == locCell) {
		payload = v.T
	} else {
		// boxed value
		ref := vc.newRef(&fr.heap, "box_"+x.Name())
		if _, isTuple := x.X.Type().(*types.Tuple); !isTuple && v.T != "" && (v.Loc == nil || v.Loc.Kind == locCell) {
			l := vc.cellLoc(x.X.Type(), ref)
			vc.storeLoc(&fr.heap, l, v.T)
		}
		payload = ref
	}
	iv := fr.vc.namedVal(x.Name(), Val{T: sApp("mk-iface", tag, payload), Typ: x.Type()})
	boxed := v
	iv.Boxed = &boxed
	fr.vals[x] = iv
}

func (fr *Frame) doTypeAssert(x *ssa.TypeAssert) {
	vc := fr.vc
	v := fr.val(x.X)
	var ok string
	var res Val
	if types.IsInterface(x.AssertedType) {
		okc := vc.free("ta_ok", "Bool")
		vc.setRng(okc, sImp(okc, sNot(sEq(sApp("i-tag", v.T), "0"))))
		ok = okc
		res = Val{T: v.T, Typ: x.AssertedType}
	} else {
		ok = sEq(sApp("i-tag", v.T), vc.typeId(x.AssertedType))
		if isRefLike(x.AssertedType) {
			res = Val{T: sApp("i-val", v.T), Typ: x.AssertedType}
			vc.attachPtrLoc(&res)
		} else {
			l := vc.cellLoc(x.AssertedType, sApp("i-val", v.T))
			res = vc.namedVal(x.Name(), Val{T: vc.loadLoc(fr.heap, l), Typ: x.AssertedType})
			vc.setRng(res.T, vc.wf(res.T, x.AssertedType, ""))
		}
	}
	if x.CommaOk {
		okv := Val{T: ok, Typ: types.Typ[types.Bool]}
		// on failure the value is the zero value
		zt := vc.zeroOf(x.AssertedType)
		rv := Val{T: sIte(ok, res.T, zt), Typ: x.AssertedType}
		rv = vc.namedVal(x.Name(), rv)
		vc.attachPtrLoc(&rv)
		fr.set(x, Val{Typ: x.Type(), Elems: []Val{rv, okv}})
		return
	}
	fr.safeObl("typeassert", ok, x.Pos(), "type assertion")
	fr.set(x, res)
}

func (fr *Frame) doSlice(x *ssa.Slice) {
	vc := fr.vc
	base := fr.val(x.X)
	var lo, hi, mx string
	if x.Low != nil {
		lo = fr.val(x.Low).T
	} else {
		lo = "0"
	}
	switch t := x.X.Type().Underlying().(type) {
	case *types.Slice:
		l, c := sApp("s-len", base.T), sApp("s-cap", base.T)
		if x.High != nil {
			hi = fr.val(x.High).T
		} else {
			hi = l
		}
		if x.Max != nil {
			mx = fr.val(x.Max).T
		} else {
			mx = c
		}
		fr.safeObl("slice", sAnd(sApp("<=", "0", lo), sApp("<=", lo, hi), sApp("<=", hi, mx), sApp("<=", mx, c)), x.Pos(), "slice bounds")
		r := Val{T: sApp("mk-slice", sApp("s-arr", base.T), sApp("+", sApp("s-off", base.T), lo), sApp("-", hi, lo), sApp("-", mx, lo)), Typ: x.Type()}
		fr.setSlice(x, r, lo, hi)
	case *types.Basic: // string
		l := sApp("slen", base.T)
		if x.High != nil {
			hi = fr.val(x.High).T
		} else {
			hi = l
		}
		fr.safeObl("slice", sAnd(sApp("<=", "0", lo), sApp("<=", lo, hi), sApp("<=", hi, l)), x.Pos(), "string slice bounds")
		fr.setNamed(x, Val{T: sApp("ssub", base.T, lo, hi), Typ: x.Type()})
	case *types.Pointer:
		at := t.Elem().Underlying().(*types.Array)
		n := sInt(at.Len())
		if x.High != nil {
			hi = fr.val(x.High).T
		} else {
			hi = n
		}
		if x.Max != nil {
			mx = fr.val(x.Max).T
		} else {
			mx = n
		}
		fr.safeObl("slice", sAnd(sApp("<=", "0", lo), sApp("<=", lo, hi), sApp("<=", hi, mx), sApp("<=", mx, n)), x.Pos(), "array slice bounds")
		if base.Loc != nil && base.Loc.Kind != locCell {
			// slicing an array that lives inside a struct: the slice aliases the field. Abstracted: copy out.
			vc.warn("slice of array field in %s: aliasing abstracted (copy semantics)", fnName(fr.fn))
			ref := vc.newRef(&fr.heap, "arrcopy")
			l := vc.elemLoc(at.Elem(), ref, "0")
			vc.hset(&fr.heap, l.Map, sApp("store", vc.hget(fr.heap, l.Map), ref, vc.loadLoc(fr.heap, base.Loc)))
			r := Val{T: sApp("mk-slice", ref, lo, sApp("-", hi, lo), sApp("-", mx, lo)), Typ: x.Type()}
			fr.setSlice(x, r, lo, hi)
			return
		}
		fr.nonNil(base, x.Pos())
		r := Val{T: sApp("mk-slice", base.T, lo, sApp("-", hi, lo), sApp("-", mx, lo)), Typ: x.Type()}
		fr.setSlice(x, r, lo, hi)
	default:
		fr.set(x, vc.freshVal(x.Name(), x.Type(), fr.heap))
	}
}

func (fr *Frame) setSlice(x ssa.Value, r Val, lo, hi string) {
	l1, ok1 := litInt(lo)
	l2, ok2 := litInt(hi)
	clen := int64(0)
	if ok1 && ok2 {
		clen = l2.Int64() - l1.Int64() + 1
	}
	r = fr.vc.namedVal(x.Name(), r)
	r.CLen = clen
	fr.vals[x] = r
}

// ---------------------------------------------------------------- maps

func (vc *VC) keySort(k types.Type) string {
	if at, ok := k.Underlying().(*types.Array); ok {
		if b, ok := at.Elem().Underlying().(*types.Basic); ok && b.Kind() == types.Uint8 && at.Len() <= 32 {
			return "Int"
		}
	}
	return vc.sortOf(k)
}

func (vc *VC) keyTerm(v Val, k types.Type) string {
	if at, ok := k.Underlying().(*types.Array); ok {
		if b, ok := at.Elem().Underlying().(*types.Basic); ok && b.Kind() == types.Uint8 && at.Len() <= 32 {
			av := vc.namedVal("key", v)
			var parts []string
			for i := int64(0); i < at.Len(); i++ {
				parts = append(parts, sApp("*", sApp("mod", sApp("select", av.T, sInt(i)), "256"), pow2s(int(8*i))))
			}
			return sApp("+", parts...)
		}
	}
	return v.T
}

func (vc *VC) mapHeaps(mt *types.Map) (string, string) {
	k := typeKey(mt)
	hm, vm := "MH_"+k, "MV_"+k
	ks := vc.keySort(mt.Key())
	vc.mapSort(hm, "(Array Int (Array "+ks+" Bool))")
	vc.mapSort(vm, "(Array Int (Array "+ks+" "+vc.sortOf(mt.Elem())+"))")
	return hm, vm
}

func (fr *Frame) doLookup(x *ssa.Lookup) {
	vc := fr.vc
	base := fr.val(x.X)
	if mt, ok := x.X.Type().Underlying().(*types.Map); ok {
		hm, vm := vc.mapHeaps(mt)
		k := vc.keyTerm(fr.val(x.Index), mt.Key())
		has := vc.def("has", "Bool", sAnd(sNot(sEq(base.T, "0")), sApp("select", sApp("select", vc.hget(fr.heap, hm), base.T), k)))
		raw := sApp("select", sApp("select", vc.hget(fr.heap, vm), base.T), k)
		v := Val{T: sIte(has, raw, vc.zeroOf(mt.Elem())), Typ: mt.Elem()}
		v = vc.namedVal(x.Name(), v)
		vc.setRng(v.T, vc.wf(v.T, mt.Elem(), vc.alloc(fr.heap)))
		vc.attachPtrLoc(&v)
		if x.CommaOk {
			fr.set(x, Val{Typ: x.Type(), Elems: []Val{v, {T: has, Typ: types.Typ[types.Bool]}}})
		} else {
			fr.set(x, v)
		}
		return
	}
	// string index
	idx := fr.val(x.Index)
	fr.safeObl("index", sAnd(sApp("<=", "0", idx.T), sApp("<", idx.T, sApp("slen", base.T))), x.Pos(), "string index")
	fr.setNamed(x, Val{T: sApp("sat", base.T, idx.T), Typ: x.Type(), Mask: big.NewInt(255)})
}

func (fr *Frame) doNext(x *ssa.Next) {
	vc := fr.vc
	tup := x.Type().(*types.Tuple)
	ok := Val{T: vc.free("next_ok", "Bool"), Typ: types.Typ[types.Bool]}
	var k, v Val
	if x.IsString {
		k = vc.freshVal("next_k", tup.At(1).Type(), fr.heap)
		v = vc.freshVal("next_v", tup.At(2).Type(), fr.heap)
	} else {
		rng := x.Iter.(*ssa.Range)
		mt := rng.X.Type().Underlying().(*types.Map)
		m := fr.val(rng.X)
		hm, vm := vc.mapHeaps(mt)
		if b, isInvalid := tup.At(1).Type().(*types.Basic); isInvalid && b.Kind() == types.Invalid {
			k = Val{T: "0", Typ: tup.At(1).Type()}
			kk := vc.freshVal("next_k", mt.Key(), fr.heap)
			_ = kk
		} else {
			k = vc.freshVal("next_k", mt.Key(), fr.heap)
		}
		kt := "0"
		if k.T != "0" {
			kt = vc.keyTerm(k, mt.Key())
			vc.assume(fr.curReach, sImp(ok.T, sAnd(sNot(sEq(m.T, "0")), sApp("select", sApp("select", vc.hget(fr.heap, hm), m.T), kt))), "range key present")
		}
		if b, isInvalid := tup.At(2).Type().(*types.Basic); isInvalid && b.Kind() == types.Invalid {
			v = Val{T: "0", Typ: tup.At(2).Type()}
		} else if k.T != "0" {
			v = vc.namedVal("next_v", Val{T: sApp("select", sApp("select", vc.hget(fr.heap, vm), m.T), kt), Typ: mt.Elem()})
			vc.setRng(v.T, vc.wf(v.T, mt.Elem(), vc.alloc(fr.heap)))
			vc.attachPtrLoc(&v)
		} else {
			v = vc.freshVal("next_v", mt.Elem(), fr.heap)
		}
	}
	fr.set(x, Val{Typ: x.Type(), Elems: []Val{ok, k, v}})
}

// ---------------------------------------------------------------- defers

func (fr *Frame) runDefers() {
	vc := fr.vc
	for i := len(fr.defers) - 1; i >= 0; i-- {
		d := fr.defers[i]
		// executed only if the defer statement was reached
		save := fr.curReach
		before := fr.heap.clone()
		cond := d.reach
		fr.curReach = sAnd(save, cond)
		fr.doCall(d.call.Common(), nil, d.call.Pos())
		fr.curReach = save
		if cond != save && cond != "true" {
			fr.heap = vc.mergeHeaps([]string{cond, "true"}, []Heap{fr.heap, before})
		}
	}
}

// ---------------------------------------------------------------- modsets

func (e *Engine) addrRootMap(v ssa.Value) (string, bool) {
	switch a := v.(type) {
	case *ssa.FieldAddr:
		if m, ok := e.addrRootMap(a.X); ok && m != "" {
			return m, true
		}
		pt := a.X.Type().Underlying().(*types.Pointer).Elem()
		return fieldMapName(pt, a.Field), true
	case *ssa.IndexAddr:
		switch t := a.X.Type().Underlying().(type) {
		case *types.Slice:
			return elemMapName(t.Elem()), true
		case *types.Pointer:
			if m, ok := e.addrRootMap(a.X); ok && m != "" {
				return m, true
			}
			return elemMapName(t.Elem().Underlying().(*types.Array).Elem()), true
		}
	}
	return "", false
}

// memory allocated by this very function is not part of its frame
func isFreshBase(v ssa.Value) bool {
	switch a := v.(type) {
	case *ssa.Alloc, *ssa.MakeSlice:
		return true
	case *ssa.FieldAddr:
		return isFreshBase(a.X)
	case *ssa.IndexAddr:
		return isFreshBase(a.X)
	case *ssa.Slice:
		return isFreshBase(a.X)
	}
	return false
}

func (e *Engine) storeMaps(addr ssa.Value, ms *ModSet) {
	if m, ok := e.addrRootMap(addr); ok && m != "" {
		ms.Maps[m] = true
		return
	}
	pt, ok := addr.Type().Underlying().(*types.Pointer)
	if !ok {
		ms.All = true
		return
	}
	el := pt.Elem()
	switch u := el.Underlying().(type) {
	case *types.Struct:
		for i := 0; i < u.NumFields(); i++ {
			ms.Maps[fieldMapName(el, i)] = true
		}
	case *types.Array:
		ms.Maps[elemMapName(u.Elem())] = true
	default:
		ms.Maps[cellMapName(el)] = true
	}
}

func (e *Engine) resolveModName(pkg, m string) []string {
	// "Type.field" -> F_pkg_Type_field ; "elems(T)" ; explicit map names pass through
	if strings.HasPrefix(m, "F_") || strings.HasPrefix(m, "E_") || strings.HasPrefix(m, "C_") || strings.HasPrefix(m, "MH_") || strings.HasPrefix(m, "MV_") || strings.HasPrefix(m, "G_") {
		return []string{m}
	}
	if strings.HasPrefix(m, "elems(") {
		t := strings.TrimSuffix(strings.TrimPrefix(m, "elems("), ")")
		return []string{"E_" + sanitize(t)}
	}
	if strings.HasPrefix(m, "ghost(") {
		t := strings.TrimSuffix(strings.TrimPrefix(m, "ghost("), ")")
		return []string{"G_" + t}
	}
	if strings.HasPrefix(m, "map(") {
		t := strings.TrimSuffix(strings.TrimPrefix(m, "map("), ")")
		return []string{"MH_" + sanitize(t), "MV_" + sanitize(t)}
	}
	parts := strings.Split(m, ".")
	if parts[len(parts)-1] == "*" {
		// all fields of a struct type
		tp, tn := pkg, parts[0]
		if len(parts) == 3 {
			tp, tn = parts[0], parts[1]
		}
		if p, ok := e.pkgs[tp]; ok {
			if obj, ok := p.Types.Scope().Lookup(tn).(*types.TypeName); ok {
				if st, ok := obj.Type().Underlying().(*types.Struct); ok {
					var out []string
					for i := 0; i < st.NumFields(); i++ {
						out = append(out, fieldMapName(obj.Type(), i))
					}
					return out
				}
			}
		}
		return []string{m}
	}
	if len(parts) == 2 {
		if pkg == "" {
			return []string{"F_" + sanitize(parts[0]) + "_" + parts[1]}
		}
		return []string{"F_" + sanitize(pkg+"."+parts[0]) + "_" + parts[1]}
	}
	if len(parts) == 3 {
		return []string{"F_" + sanitize(parts[0]+"."+parts[1]) + "_" + parts[2]}
	}
	return []string{m}
}

func (e *Engine) contractMods(c *Contract) *ModSet {
	ms := &ModSet{Maps: map[string]bool{}}
	if c.ModAll {
		ms.All = true
	}
	if len(c.Preserves) > 0 {
		ms.All = true
		for _, p := range c.Preserves {
			ms.Except = append(ms.Except, patternPrefix(c.Pkg, p))
		}
	}
	for _, m := range c.Modifies {
		for _, n := range e.resolveModName(c.Pkg, m) {
			ms.Maps[n] = true
		}
	}
	for _, mo := range c.ModObj {
		for _, n := range e.resolveModName(c.Pkg, mo.Field) {
			ms.Maps[n] = true
		}
	}
	for _, g := range c.Ghost {
		ms.Maps["G_"+g.Target] = true
	}
	return ms
}

// whole-map part of a contract's frame (object-restricted entries excluded)
func (e *Engine) contractWholeMods(c *Contract) *ModSet {
	ms := &ModSet{Maps: map[string]bool{}}
	if c.ModAll {
		ms.All = true
	}
	if len(c.Preserves) > 0 {
		ms.All = true
		for _, p := range c.Preserves {
			ms.Except = append(ms.Except, patternPrefix(c.Pkg, p))
		}
	}
	for _, m := range c.Modifies {
		for _, n := range e.resolveModName(c.Pkg, m) {
			ms.Maps[n] = true
		}
	}
	for _, g := range c.Ghost {
		ms.Maps["G_"+g.Target] = true
	}
	return ms
}

func (e *Engine) externalMods(call *ssa.CallCommon, ms *ModSet) {
	for _, a := range call.Args {
		switch t := a.Type().Underlying().(type) {
		case *types.Slice:
			ms.Maps[elemMapName(t.Elem())] = true
		case *types.Pointer:
			el := t.Elem()
			switch u := el.Underlying().(type) {
			case *types.Struct:
				if nm, ok := el.(*types.Named); ok && nm.Obj().Pkg() != nil && strings.HasPrefix(nm.Obj().Pkg().Path(), strings.TrimSuffix(modPath, "/")) {
					for i := 0; i < u.NumFields(); i++ {
						ms.Maps[fieldMapName(el, i)] = true
					}
				}
			case *types.Array:
				ms.Maps[elemMapName(u.Elem())] = true
			default:
				if m, ok := e.addrRootMap(a); ok && m != "" {
					ms.Maps[m] = true
				} else {
					ms.Maps[cellMapName(el)] = true
				}
			}
		case *types.Signature:
			ms.All = true
		case *types.Interface:
			// an interface argument may expose repository objects to the callee; only fmt/log style callees are expected
		}
	}
}

// rawMode in the visiting set asks for the contract-free summary: bodies are followed through every
// repository callee, so the result also names the heap maps outside the frame universe that a call can touch.
var rawMode = new(ssa.Function)

// frame of a contracted callee as seen by a caller: the declared frame inside the universe plus, outside
// it, the contract-free summary of the body (or "anything outside" when there is no summary)
func (e *Engine) contractModsOf(c *Contract, f *ssa.Function) *ModSet {
	ms := e.contractMods(c)
	if ms.All || c.External || len(e.universe) == 0 {
		return ms
	}
	if f == nil || f.Blocks == nil || !isInRepo(f) {
		ms.Outside = true
		return ms
	}
	rm := e.fnMods(f, map[*ssa.Function]bool{rawMode: true})
	if rm.All || rm.Outside {
		ms.Outside = true
		return ms
	}
	for m := range rm.Maps {
		if !e.inUniverse(m) {
			ms.Maps[m] = true
		}
	}
	return ms
}

func (e *Engine) fnMods(fn *ssa.Function, visiting map[*ssa.Function]bool) *ModSet {
	raw := visiting[rawMode]
	cache := e.modsets
	if raw {
		cache = e.rawsets
	}
	e.mu.Lock()
	ms0, ok0 := cache[fn]
	e.mu.Unlock()
	if ok0 {
		return ms0
	}
	if c, ok := e.contracts[fnName(fn)]; ok && c.ModGiven && (!raw || c.External) {
		ms := e.contractModsOf(c, fn)
		e.mu.Lock()
		cache[fn] = ms
		e.mu.Unlock()
		return ms
	}
	ms := &ModSet{Maps: map[string]bool{}}
	if fn.Blocks == nil || !isInRepo(fn) {
		return ms // externals handled at the call site
	}
	if visiting[fn] {
		return ms
	}
	visiting[fn] = true
	for _, b := range fn.Blocks {
		for _, in := range b.Instrs {
			e.instrMods(in, ms, visiting, nil, true)
		}
	}
	delete(visiting, fn)
	if raw {
		// ghost effects are declared on contracts: a body summary that ignores contracts still has to name them
		if c, ok := e.contracts[fnName(fn)]; ok {
			for _, g := range c.Ghost {
				ms.Maps["G_"+g.Target] = true
			}
		}
	}
	n := len(visiting)
	if raw {
		n--
	}
	if n <= 1 {
		e.mu.Lock()
		cache[fn] = ms
		e.mu.Unlock()
	}
	return ms
}

func (e *Engine) instrMods(in ssa.Instruction, ms *ModSet, visiting map[*ssa.Function]bool, fr *Frame, skipFresh bool) {
	if skipFresh {
		switch x := in.(type) {
		case *ssa.Alloc, *ssa.MakeSlice, *ssa.MakeMap, *ssa.MakeInterface:
			return
		case *ssa.Store:
			if isFreshBase(x.Addr) {
				return
			}
		case *ssa.Convert:
			return
		case *ssa.Slice:
			return
		}
	}
	switch x := in.(type) {
	case *ssa.Store:
		e.storeMaps(x.Addr, ms)
	case *ssa.MapUpdate:
		k := typeKey(x.Map.Type().Underlying().(*types.Map))
		ms.Maps["MH_"+k] = true
		ms.Maps["MV_"+k] = true
	case *ssa.Call:
		e.callMods(x.Common(), ms, visiting)
	case *ssa.Defer:
		e.callMods(x.Common(), ms, visiting)
	case *ssa.MakeSlice:
		ms.Maps[elemMapName(x.Type().Underlying().(*types.Slice).Elem())] = true
	case *ssa.Alloc:
		el := x.Type().Underlying().(*types.Pointer).Elem()
		switch u := el.Underlying().(type) {
		case *types.Struct:
			for i := 0; i < u.NumFields(); i++ {
				ms.Maps[fieldMapName(el, i)] = true
			}
		case *types.Array:
			ms.Maps[elemMapName(u.Elem())] = true
		default:
			ms.Maps[cellMapName(el)] = true
		}
	case *ssa.MakeMap:
		k := typeKey(x.Type().Underlying().(*types.Map))
		ms.Maps["MH_"+k] = true
	case *ssa.MakeInterface:
		if !isRefLike(x.X.Type()) {
			ms.Maps[cellMapName(x.X.Type())] = true
		}
	case *ssa.Convert:
		if sl, ok := x.Type().Underlying().(*types.Slice); ok {
			ms.Maps[elemMapName(sl.Elem())] = true
		}
	case *ssa.Slice:
		if pt, ok := x.X.Type().Underlying().(*types.Pointer); ok {
			ms.Maps[elemMapName(pt.Elem().Underlying().(*types.Array).Elem())] = true
		}
	}
}

func (e *Engine) callMods(call *ssa.CallCommon, ms *ModSet, visiting map[*ssa.Function]bool) {
	if call.IsInvoke() {
		key := "(" + normName(types.TypeString(call.Value.Type(), nil)) + ")." + call.Method.Name()
		if c, ok := e.contracts[key]; ok && c.ModGiven {
			ms.add(e.contractModsOf(c, nil))
			return
		}
		if e.unresolved != nil {
			e.mu.Lock()
			e.unresolved[key]++
			e.mu.Unlock()
		}
		ms.All = true
		ms.Except = nil
		return
	}
	switch f := call.Value.(type) {
	case *ssa.Builtin:
		switch f.Name() {
		case "append":
			if sl, ok := call.Args[0].Type().Underlying().(*types.Slice); ok {
				ms.Maps[elemMapName(sl.Elem())] = true
			}
		case "copy":
			if sl, ok := call.Args[0].Type().Underlying().(*types.Slice); ok {
				ms.Maps[elemMapName(sl.Elem())] = true
			}
		case "delete":
			k := typeKey(call.Args[0].Type().Underlying().(*types.Map))
			ms.Maps["MH_"+k] = true
		}
	case *ssa.Function:
		if c, ok := e.contracts[fnName(f)]; ok && c.ModGiven && (!visiting[rawMode] || c.External) {
			ms.add(e.contractModsOf(c, f))
			return
		}
		if isInRepo(f) && f.Blocks != nil {
			ms.add(e.fnMods(f, visiting))
			return
		}
		if nativeExternal(fnName(f)) {
			nativeMods(e, fnName(f), call, ms)
			return
		}
		e.externalMods(call, ms)
	case *ssa.MakeClosure:
		fn := f.Fn.(*ssa.Function)
		ms.add(e.fnMods(fn, visiting))
		// the closure may write captured variables
		for _, b := range f.Bindings {
			if pt, ok := b.Type().Underlying().(*types.Pointer); ok {
				ms.Maps[cellMapName(pt.Elem())] = true
			}
		}
	default:
		if e.unresolved != nil {
			e.unresolved["dynamic call: "+call.Value.String()]++
		}
		ms.All = true
		ms.Except = nil
	}
}

var _ = fmt.Sprintf

// sentinel errors of other packages (io.EOF, ...) are package-level variables that are initialised once and
// never reassigned: constants, and not nil
func isExternalErrorGlobal(g *ssa.Global) bool {
	if g.Pkg == nil || g.Pkg.Pkg == nil || strings.HasPrefix(g.Pkg.Pkg.Path(), strings.TrimSuffix(modPath, "/")) {
		return false
	}
	pt, ok := g.Type().(*types.Pointer)
	if !ok {
		return false
	}
	return types.TypeString(pt.Elem(), nil) == "error"
}
