package main

// Contract files: comment-only Go files (//go:build verif) in /repo/<pkg>/zz_verif_contracts.go
// and /verif/contracts/externals.vc (assumed contracts of functions outside the repository).

import (
	"fmt"
	"go/ast"
	"go/parser"
	"os"
	"path/filepath"
	"regexp"
	"strconv"
	"strings"
)

type Clause struct {
	Tags []string
	Expr ast.Expr
	Src  string
	File string
	Line int
}

type SiteClause struct {
	Callee  string
	Ordinal int    // 0 = every call of that callee
	Kind    string // assert | assume
	When    string // before | after
	Havoc   []string
	Clause
}

type Contract struct {
	Key        string
	Pkg        string
	Requires   []*Clause
	Ensures    []*Clause
	Assumes    []*Clause // postconditions assumed at call sites but NOT verified against the body (listed in evidence)
	ModGiven   bool
	ModAll     bool
	Modifies   []string       // heap map names or "Type.field"
	Preserves  []string       // for dynamically dispatched callees: everything except these may change
	ModObj     []*ModObjEntry // object-restricted frame entries: "Type.field@expr"
	LoopInv    map[int][]*Clause
	LoopBack   map[int][]*Clause // asserted at every back edge of the loop (end of an iteration), never assumed
	LoopEntry  map[int][]*Clause // asserted when the loop is entered from outside, never assumed
	LoopMod    map[int][]string
	Sites      []*SiteClause
	Inline     bool
	External   bool
	Trusted    string // non-empty: reason why body is not verified against this contract
	NoVerify   bool
	Ghost      []*GhostEffect
	File       string
	Line       int
	SafeOn     bool
	SafeProps  []string // `safe C13, C15`: the safety obligations belong to these properties only (default: every property the contract is tagged for)
	Params     []string // optional explicit parameter names for externals/interfaces
	Tags       map[string]bool
	Unroll     map[int]int
	PureResult bool // result is a function of args+heap (deterministic) – for spec use
}

type ModObjEntry struct {
	Field string // "Type.field" or elems(T) as written
	Expr  ast.Expr
	Src   string
}

type GhostEffect struct {
	Target string // ghost map name
	Index  ast.Expr
	Value  ast.Expr
	Src    string
}

type SpecFunc struct {
	Name   string
	Params []string
	Body   ast.Expr
	Src    string
	Pkg    string
}

type Axiom struct {
	Name string
	Clause
	Pkg string
}

type Lemma struct {
	Name string
	Clause
	Pkg   string
	Binds []string // free variables "name type"
}

type Monitor struct {
	Src string
}

type GhostDecl struct {
	Name string
	Sort string // SMT sort of values; the ghost is a map Int -> Sort
}

var tagRe = regexp.MustCompile(`^([A-Z][0-9]{2,3}\.[A-Za-z0-9_.\-#]+(?:,[A-Z][0-9]{2,3}\.[A-Za-z0-9_.\-#]+)*):\s*`)
var kwRe = regexp.MustCompile(`^(func|spec|axiom|lemma|universe|requires|ensures|assumes|modifies|preserves|loop#\d+|at|inline|trusted|noverify|ghost|params|safe|unroll#\d+|monitor|pure)\b`)

func stripComment(s string) string {
	// remove trailing " // ..." comments (not inside string literals)
	in := false
	for i := 0; i+1 < len(s); i++ {
		if s[i] == '"' {
			in = !in
		}
		if !in && s[i] == '/' && s[i+1] == '/' {
			return strings.TrimRight(s[:i], " \t")
		}
	}
	return s
}

type rawClause struct {
	text string
	line int
}

func readContractLines(path string) ([]rawClause, string, error) {
	b, err := os.ReadFile(path)
	if err != nil {
		return nil, "", err
	}
	pkg := ""
	var out []rawClause
	for i, ln := range strings.Split(string(b), "\n") {
		t := strings.TrimSpace(ln)
		if strings.HasPrefix(t, "package ") {
			pkg = strings.TrimSpace(strings.TrimPrefix(t, "package "))
			continue
		}
		if !strings.HasPrefix(t, "//@") {
			continue
		}
		t = strings.TrimSpace(stripComment(strings.TrimPrefix(t, "//@")))
		if t == "" {
			continue
		}
		if kwRe.MatchString(t) || len(out) == 0 {
			out = append(out, rawClause{t, i + 1})
		} else {
			out[len(out)-1].text += " " + t
		}
	}
	return out, pkg, nil
}

func parseClause(text, file string, line int) (*Clause, error) {
	c := &Clause{File: file, Line: line}
	if m := tagRe.FindStringSubmatch(text); m != nil {
		c.Tags = strings.Split(m[1], ",")
		text = text[len(m[0]):]
	}
	c.Src = text
	ex, err := parser.ParseExpr(text)
	if err != nil {
		return nil, fmt.Errorf("%s:%d: cannot parse %q: %v", file, line, text, err)
	}
	c.Expr = ex
	return c, nil
}

func (e *Engine) qualify(pkg, key string) string {
	// "(*LockDB).doLock" in package server -> "(*server.LockDB).doLock"; "NewX" -> "server.NewX"
	if pkg == "" {
		return key
	}
	if strings.HasPrefix(key, "(*") {
		rest := key[2:]
		if !strings.Contains(strings.SplitN(rest, ")", 2)[0], ".") {
			return "(*" + pkg + "." + rest
		}
		return key
	}
	if strings.HasPrefix(key, "(") {
		rest := key[1:]
		if !strings.Contains(strings.SplitN(rest, ")", 2)[0], ".") {
			return "(" + pkg + "." + rest
		}
		return key
	}
	if !strings.Contains(key, ".") {
		return pkg + "." + key
	}
	// "Type.Method" (interface method or value receiver)
	parts := strings.SplitN(key, ".", 2)
	if parts[0] != "" && parts[0][0] >= 'A' && parts[0][0] <= 'Z' {
		if _, isPkg := e.pkgs[parts[0]]; !isPkg {
			return "(" + pkg + "." + parts[0] + ")." + parts[1]
		}
	}
	return key
}

func (e *Engine) LoadContracts(path string, external bool) error {
	lines, pkg, err := readContractLines(path)
	if err != nil {
		return err
	}
	if external {
		pkg = ""
	}
	rel := path
	if r, err := filepath.Rel(e.repo, path); err == nil && !strings.HasPrefix(r, "..") {
		rel = r
	}
	var cur *Contract
	for _, rc := range lines {
		t := rc.text
		kw := kwRe.FindString(t)
		rest := strings.TrimSpace(strings.TrimPrefix(t, kw))
		switch {
		case kw == "func":
			key := e.qualify(pkg, rest)
			cur = &Contract{Key: key, Pkg: pkg, LoopInv: map[int][]*Clause{}, LoopBack: map[int][]*Clause{}, LoopEntry: map[int][]*Clause{}, LoopMod: map[int][]string{}, External: external,
				File: rel, Line: rc.line, Tags: map[string]bool{}, Unroll: map[int]int{}}
			if old, ok := e.contracts[key]; ok {
				return fmt.Errorf("%s:%d: duplicate contract for %s (first at %s:%d)", rel, rc.line, key, old.File, old.Line)
			}
			e.contracts[key] = cur
		case kw == "spec":
			// spec func name(a, b) = expr
			rest = strings.TrimSpace(strings.TrimPrefix(rest, "func"))
			eq := strings.Index(rest, "=")
			lp := strings.Index(rest, "(")
			rp := strings.Index(rest, ")")
			if eq < 0 || lp < 0 || rp < lp || rp > eq {
				return fmt.Errorf("%s:%d: bad spec func", rel, rc.line)
			}
			// find the '=' after the parameter list
			eq = rp + strings.Index(rest[rp:], "=")
			name := strings.TrimSpace(rest[:lp])
			var params []string
			for _, p := range strings.Split(rest[lp+1:rp], ",") {
				p = strings.TrimSpace(p)
				if p != "" {
					params = append(params, strings.Fields(p)[0])
				}
			}
			body := strings.TrimSpace(rest[eq+1:])
			ex, err := parser.ParseExpr(body)
			if err != nil {
				return fmt.Errorf("%s:%d: spec func %s: %v", rel, rc.line, name, err)
			}
			e.specFuncs[name] = &SpecFunc{Name: name, Params: params, Body: ex, Src: body, Pkg: pkg}
			cur = nil
		case kw == "axiom" || kw == "lemma":
			colon := strings.Index(rest, ":")
			if colon < 0 {
				return fmt.Errorf("%s:%d: %s needs a name", rel, rc.line, kw)
			}
			name := strings.TrimSpace(rest[:colon])
			body := strings.TrimSpace(rest[colon+1:])
			var binds []string
			if strings.HasPrefix(body, "[") {
				rb := strings.Index(body, "]")
				for _, b := range strings.Split(body[1:rb], ",") {
					binds = append(binds, strings.TrimSpace(b))
				}
				body = strings.TrimSpace(body[rb+1:])
			}
			tags := []string{}
			if i := strings.Index(name, " "); i > 0 {
				tags = strings.Split(strings.TrimSpace(name[i:]), ",")
				name = name[:i]
			}
			cl, err := parseClause(body, rel, rc.line)
			if err != nil {
				return err
			}
			cl.Tags = append(cl.Tags, tags...)
			if kw == "axiom" {
				e.axioms = append(e.axioms, &Axiom{Name: name, Clause: *cl, Pkg: pkg})
			} else {
				e.lemmas = append(e.lemmas, &Lemma{Name: name, Clause: *cl, Pkg: pkg, Binds: binds})
			}
			cur = nil
		case kw == "ghost" && (cur == nil || !strings.Contains(rest, "[")):
			// ghost name : Sort
			parts := strings.SplitN(rest, ":", 2)
			if len(parts) != 2 {
				return fmt.Errorf("%s:%d: ghost name : sort", rel, rc.line)
			}
			n := strings.TrimSpace(parts[0])
			e.ghosts[n] = &GhostDecl{Name: n, Sort: strings.TrimSpace(parts[1])}
		case kw == "universe":
			for _, u := range strings.Split(rest, ",") {
				if strings.TrimSpace(u) != "" {
					e.universe = append(e.universe, patternPrefix(pkg, u))
				}
			}
			cur = nil
		case kw == "monitor":
			e.monitors = append(e.monitors, &Monitor{Src: rest})
		default:
			if cur == nil {
				return fmt.Errorf("%s:%d: clause outside of a func block: %s", rel, rc.line, t)
			}
			switch {
			case kw == "assumes":
				cl, err := parseClause(rest, rel, rc.line)
				if err != nil {
					return err
				}
				cur.Assumes = append(cur.Assumes, cl)
			case kw == "requires" || kw == "ensures":
				cl, err := parseClause(rest, rel, rc.line)
				if err != nil {
					return err
				}
				for _, tg := range cl.Tags {
					cur.Tags[tg] = true
				}
				if kw == "requires" {
					cur.Requires = append(cur.Requires, cl)
				} else {
					cur.Ensures = append(cur.Ensures, cl)
				}
			case kw == "modifies":
				cur.ModGiven = true
				for _, m := range strings.Split(rest, ",") {
					m = strings.TrimSpace(m)
					switch m {
					case "nothing", "":
					case "all":
						cur.ModAll = true
					default:
						if i := strings.Index(m, "@"); i > 0 {
							ex, err := parser.ParseExpr(m[i+1:])
							if err != nil {
								return fmt.Errorf("%s:%d: bad object expression in %q: %v", rel, rc.line, m, err)
							}
							cur.ModObj = append(cur.ModObj, &ModObjEntry{Field: strings.TrimSpace(m[:i]), Expr: ex, Src: m})
						} else {
							cur.Modifies = append(cur.Modifies, m)
						}
					}
				}
			case kw == "preserves":
				cur.ModGiven = true
				for _, m := range strings.Split(rest, ",") {
					m = strings.TrimSpace(m)
					if m != "" {
						cur.Preserves = append(cur.Preserves, m)
					}
				}
			case strings.HasPrefix(kw, "loop#"):
				n, _ := strconv.Atoi(strings.TrimPrefix(kw, "loop#"))
				if strings.HasPrefix(rest, "invariant") {
					cl, err := parseClause(strings.TrimSpace(strings.TrimPrefix(rest, "invariant")), rel, rc.line)
					if err != nil {
						return err
					}
					for _, tg := range cl.Tags {
						cur.Tags[tg] = true
					}
					cur.LoopInv[n] = append(cur.LoopInv[n], cl)
				} else if strings.HasPrefix(rest, "entry") {
					cl, err := parseClause(strings.TrimSpace(strings.TrimPrefix(rest, "entry")), rel, rc.line)
					if err != nil {
						return err
					}
					for _, tg := range cl.Tags {
						cur.Tags[tg] = true
					}
					cur.LoopEntry[n] = append(cur.LoopEntry[n], cl)
				} else if strings.HasPrefix(rest, "backedge") {
					cl, err := parseClause(strings.TrimSpace(strings.TrimPrefix(rest, "backedge")), rel, rc.line)
					if err != nil {
						return err
					}
					for _, tg := range cl.Tags {
						cur.Tags[tg] = true
					}
					cur.LoopBack[n] = append(cur.LoopBack[n], cl)
				} else if strings.HasPrefix(rest, "modifies") {
					for _, m := range strings.Split(strings.TrimPrefix(rest, "modifies"), ",") {
						cur.LoopMod[n] = append(cur.LoopMod[n], strings.TrimSpace(m))
					}
				} else {
					return fmt.Errorf("%s:%d: loop clause must be invariant/backedge/modifies", rel, rc.line)
				}
			case strings.HasPrefix(kw, "unroll#"):
				n, _ := strconv.Atoi(strings.TrimPrefix(kw, "unroll#"))
				k, _ := strconv.Atoi(rest)
				cur.Unroll[n] = k
			case kw == "at":
				// at call Callee#n [after] assert|assume expr
				f := strings.Fields(rest)
				if len(f) < 4 || f[0] != "call" {
					return fmt.Errorf("%s:%d: at call Callee#n assert expr", rel, rc.line)
				}
				sc := &SiteClause{When: "before"}
				cs := f[1]
				if i := strings.Index(cs, "#"); i >= 0 {
					sc.Ordinal, _ = strconv.Atoi(cs[i+1:])
					cs = cs[:i]
				}
				sc.Callee = cs
				idx := 2
				if f[idx] == "after" || f[idx] == "before" {
					sc.When = f[idx]
					idx++
				}
				sc.Kind = f[idx]
				if sc.Kind == "havoc" {
					pos := strings.Index(rest, " havoc ")
					for _, m := range strings.Split(rest[pos+7:], ",") {
						if strings.TrimSpace(m) != "" {
							sc.Havoc = append(sc.Havoc, strings.TrimSpace(m))
						}
					}
					cur.Sites = append(cur.Sites, sc)
					break
				}
				if sc.Kind != "assert" && sc.Kind != "assume" {
					return fmt.Errorf("%s:%d: site clause kind must be assert", rel, rc.line)
				}
				pos := strings.Index(rest, " "+sc.Kind+" ")
				cl, err := parseClause(strings.TrimSpace(rest[pos+len(sc.Kind)+2:]), rel, rc.line)
				if err != nil {
					return err
				}
				for _, tg := range cl.Tags {
					cur.Tags[tg] = true
				}
				sc.Clause = *cl
				cur.Sites = append(cur.Sites, sc)
			case kw == "inline":
				cur.Inline = true
			case kw == "trusted":
				cur.Trusted = rest
				if cur.Trusted == "" {
					cur.Trusted = "trusted"
				}
			case kw == "noverify":
				cur.NoVerify = true
			case kw == "safe":
				cur.SafeOn = true
				for _, p := range strings.Split(rest, ",") {
					if p = strings.TrimSpace(p); p != "" {
						cur.SafeProps = append(cur.SafeProps, p)
					}
				}
			case kw == "pure":
				cur.PureResult = true
			case kw == "params":
				for _, p := range strings.Split(rest, ",") {
					cur.Params = append(cur.Params, strings.TrimSpace(p))
				}
			case kw == "ghost":
				// ghost name[indexExpr] = valueExpr
				eq := strings.Index(rest, "] =")
				lb := strings.Index(rest, "[")
				if eq < 0 || lb < 0 {
					return fmt.Errorf("%s:%d: ghost name[idx] = value", rel, rc.line)
				}
				ie, err1 := parser.ParseExpr(rest[lb+1 : eq])
				ve, err2 := parser.ParseExpr(strings.TrimSpace(rest[eq+3:]))
				if err1 != nil || err2 != nil {
					return fmt.Errorf("%s:%d: ghost effect parse error %v %v", rel, rc.line, err1, err2)
				}
				cur.Ghost = append(cur.Ghost, &GhostEffect{Target: strings.TrimSpace(rest[:lb]), Index: ie, Value: ve, Src: rest})
			default:
				return fmt.Errorf("%s:%d: unknown clause %q", rel, rc.line, t)
			}
		}
	}
	return nil
}

func (e *Engine) LoadAllContracts(verifDir string) error {
	e.knownFailing = map[string]bool{}
	for _, k := range loadKnown(verifDir) {
		if k.Status != "finding" {
			continue
		}
		// "<fn>/post:<tag>/*"
		o := strings.TrimSuffix(strings.TrimSuffix(k.Obligation, "*"), "/")
		if i := strings.Index(o, "/post:"); i > 0 {
			e.knownFailing[o] = true
		}
	}
	for _, p := range []string{"protocol", "server", "client"} {
		f := filepath.Join(e.repo, p, "zz_verif_contracts.go")
		if _, err := os.Stat(f); err == nil {
			if err := e.LoadContracts(f, false); err != nil {
				return err
			}
		}
	}
	ext := filepath.Join(verifDir, "contracts", "externals.vc")
	if _, err := os.Stat(ext); err == nil {
		if err := e.LoadContracts(ext, true); err != nil {
			return err
		}
	}
	return nil
}
