package main

// SMT-LIB term helpers and solver runner.

import (
	"bytes"
	"context"
	"fmt"
	"math/big"
	"os"
	"os/exec"
	"regexp"
	"sort"
	"strings"
	"sync"
	"time"
)

func sApp(op string, args ...string) string {
	return "(" + op + " " + strings.Join(args, " ") + ")"
}

func sAnd(args ...string) string {
	var out []string
	for _, a := range args {
		if a == "true" {
			continue
		}
		if a == "false" {
			return "false"
		}
		out = append(out, a)
	}
	switch len(out) {
	case 0:
		return "true"
	case 1:
		return out[0]
	}
	return sApp("and", out...)
}

func sOr(args ...string) string {
	var out []string
	for _, a := range args {
		if a == "false" {
			continue
		}
		if a == "true" {
			return "true"
		}
		out = append(out, a)
	}
	switch len(out) {
	case 0:
		return "false"
	case 1:
		return out[0]
	}
	return sApp("or", out...)
}

func sNot(a string) string {
	if a == "true" {
		return "false"
	}
	if a == "false" {
		return "true"
	}
	if strings.HasPrefix(a, "(not ") && balancedPrefix(a[5:len(a)-1]) {
		return a[5 : len(a)-1]
	}
	return "(not " + a + ")"
}

func balancedPrefix(s string) bool {
	d := 0
	for i, c := range s {
		if c == '(' {
			d++
		} else if c == ')' {
			d--
			if d < 0 {
				return false
			}
			if d == 0 && i != len(s)-1 {
				return false
			}
		} else if d == 0 && (c == ' ') {
			return false
		}
	}
	return d == 0
}

func sImp(a, b string) string {
	if a == "true" {
		return b
	}
	if a == "false" || b == "true" {
		return "true"
	}
	return "(=> " + a + " " + b + ")"
}

func sIte(c, a, b string) string {
	if c == "true" {
		return a
	}
	if c == "false" {
		return b
	}
	if a == b {
		return a
	}
	return "(ite " + c + " " + a + " " + b + ")"
}

func sEq(a, b string) string {
	if a == b {
		return "true"
	}
	return "(= " + a + " " + b + ")"
}

func sInt(v int64) string {
	if v < 0 {
		return fmt.Sprintf("(- %d)", -v)
	}
	return fmt.Sprintf("%d", v)
}

func sBig(v *big.Int) string {
	if v.Sign() < 0 {
		return "(- " + new(big.Int).Neg(v).String() + ")"
	}
	return v.String()
}

func pow2(n int) *big.Int {
	return new(big.Int).Lsh(big.NewInt(1), uint(n))
}

func pow2s(n int) string { return pow2(n).String() }

// parse a literal SMT int ("5" or "(- 5)") if it is one
func litInt(s string) (*big.Int, bool) {
	if len(s) == 0 {
		return nil, false
	}
	if s[0] >= '0' && s[0] <= '9' {
		for _, c := range s {
			if c < '0' || c > '9' {
				return nil, false
			}
		}
		v, ok := new(big.Int).SetString(s, 10)
		return v, ok
	}
	if strings.HasPrefix(s, "(- ") && strings.HasSuffix(s, ")") {
		v, ok := litInt(s[3 : len(s)-1])
		if ok {
			return new(big.Int).Neg(v), true
		}
	}
	return nil, false
}

var identRe = regexp.MustCompile(`[A-Za-z_~!@$%^&*+=<>.?/\-][A-Za-z0-9_~!@$%^&*+=<>.?/\-]*|\|[^|]*\|`)

// symbols mentioned in a term (over-approximation: every identifier token)
func termSyms(t string, f func(string)) {
	n := len(t)
	i := 0
	for i < n {
		c := t[i]
		if c == '|' {
			j := i + 1
			for j < n && t[j] != '|' {
				j++
			}
			f(t[i : j+1])
			i = j + 1
			continue
		}
		if c == '(' || c == ')' || c == ' ' || c == '\n' || c == '\t' {
			i++
			continue
		}
		j := i
		for j < n && t[j] != '(' && t[j] != ')' && t[j] != ' ' && t[j] != '\n' && t[j] != '\t' {
			j++
		}
		tok := t[i:j]
		if !(tok[0] >= '0' && tok[0] <= '9') {
			f(tok)
		}
		i = j
	}
}

// ---------------------------------------------------------------- solvers

type SolverResult struct {
	Verdict string // unsat | sat | unknown | timeout | error
	Solver  string
	Ms      int64
	Model   string
	Raw     string
}

type solverSpec struct {
	name string
	argv func(timeoutMs int) []string
}

var solvers = []solverSpec{
	{"z3-new", func(t int) []string { return []string{"z3-new", "-in", fmt.Sprintf("-t:%d", t)} }},
	{"z3", func(t int) []string { return []string{"z3", "-in", fmt.Sprintf("-t:%d", t)} }},
	{"cvc5", func(t int) []string {
		return []string{"cvc5", "--lang=smt2", "--produce-models", fmt.Sprintf("--tlimit=%d", t)}
	}},
}

func runSolver(ctx context.Context, sp solverSpec, script string, timeoutMs int) SolverResult {
	start := time.Now()
	argv := sp.argv(timeoutMs)
	cctx, cancel := context.WithTimeout(ctx, time.Duration(timeoutMs+2000)*time.Millisecond)
	defer cancel()
	cmd := exec.CommandContext(cctx, argv[0], argv[1:]...)
	src := script
	if sp.name == "cvc5" {
		// cvc5 does not accept z3-only constructs; caller avoids them. Needs logic first.
		src = strings.Replace(script, "(set-logic ALL)", "(set-logic ALL)", 1)
	}
	cmd.Stdin = strings.NewReader(src)
	var out bytes.Buffer
	cmd.Stdout = &out
	cmd.Stderr = &out
	_ = cmd.Run()
	ms := time.Since(start).Milliseconds()
	raw := out.String()
	first := strings.TrimSpace(raw)
	if i := strings.IndexByte(first, '\n'); i >= 0 {
		first = strings.TrimSpace(first[:i])
	}
	res := SolverResult{Solver: sp.name, Ms: ms, Raw: raw}
	switch first {
	case "unsat":
		res.Verdict = "unsat"
	case "sat":
		res.Verdict = "sat"
		if i := strings.IndexByte(raw, '\n'); i >= 0 {
			res.Model = raw[i+1:]
		}
	case "unknown":
		res.Verdict = "unknown"
	default:
		if cctx.Err() != nil || strings.Contains(raw, "timeout") || strings.Contains(raw, "interrupted") {
			res.Verdict = "timeout"
		} else {
			res.Verdict = "error"
		}
	}
	return res
}

// solve: z3-new first with a short budget, then race all three.
func solve(script string, timeoutMs int, wantAgreement bool) SolverResult {
	quickMs := 3000
	if timeoutMs < quickMs {
		quickMs = timeoutMs
	}
	r := runSolver(context.Background(), solvers[0], script, quickMs)
	if r.Verdict == "unsat" || r.Verdict == "sat" {
		return r
	}
	firstRaw := r
	ctx, cancel := context.WithCancel(context.Background())
	defer cancel()
	ch := make(chan SolverResult, len(solvers)+3)
	for _, sp := range solvers {
		sp := sp
		go func() { ch <- runSolver(ctx, sp, script, timeoutMs) }()
	}
	racers := len(solvers)
	// two more z3-new racers with other random seeds: nonlinear goals vary by an order of magnitude between seeds
	// (0.2 s .. 6 s measured on one C14 obligation), and a loaded machine multiplies that; the first definitive answer wins
	for _, seed := range []int{7, 13} {
		seed := seed
		racers++
		go func() {
			sp := solverSpec{fmt.Sprintf("z3-new/seed%d", seed), func(t int) []string {
				return []string{"z3-new", "-in", fmt.Sprintf("-t:%d", t), fmt.Sprintf("smt.random_seed=%d", seed), fmt.Sprintf("sat.random_seed=%d", seed)}
			}}
			ch <- runSolver(ctx, sp, script, timeoutMs)
		}()
	}
	// a fourth racer without the quantified string axioms: `unsat` from fewer assumptions is `unsat`; `sat` is a
	// counter-model up to the theory of strings (the quantifiers otherwise turn every `sat` into `unknown`)
	if stripped := dropStrAxioms(script); stripped != script {
		racers++
		go func() {
			rr := runSolver(ctx, solvers[0], stripped, timeoutMs)
			rr.Solver += " (string axioms dropped)"
			ch <- rr
		}()
	}
	var last SolverResult = firstRaw
	total := r.Ms
	for i := 0; i < racers; i++ {
		rr := <-ch
		if rr.Verdict == "unsat" || rr.Verdict == "sat" {
			rr.Ms += total
			return rr
		}
		if rr.Verdict != "error" || last.Verdict == "" {
			last = rr
		}
	}
	if last.Verdict == "error" && firstRaw.Verdict != "error" {
		last = firstRaw
	}
	last.Ms += total
	return last
}

// simple parallel map over jobs
func parallelDo(n int, workers int, f func(i int)) {
	var wg sync.WaitGroup
	ch := make(chan int)
	for w := 0; w < workers; w++ {
		wg.Add(1)
		go func() {
			defer wg.Done()
			for i := range ch {
				f(i)
			}
		}()
	}
	for i := 0; i < n; i++ {
		ch <- i
	}
	close(ch)
	wg.Wait()
}

// ---------------------------------------------------------------- model parsing

// parseModel extracts "name -> value" for 0-ary define-funs of a z3 model.
func parseModel(model string) map[string]string {
	res := map[string]string{}
	toks := sexprTokens(model)
	// find sequences: ( define-fun NAME ( ) SORT VALUE )
	for i := 0; i+4 < len(toks); i++ {
		if toks[i] == "(" && toks[i+1] == "define-fun" && toks[i+3] == "(" && toks[i+4] == ")" {
			name := toks[i+2]
			// sort: one sexpr
			j := i + 5
			j = skipSexpr(toks, j)
			k := skipSexpr(toks, j)
			res[name] = strings.Join(toks[j:k], " ")
			i = k
		}
	}
	return res
}

func sexprTokens(s string) []string {
	var toks []string
	n := len(s)
	i := 0
	for i < n {
		c := s[i]
		switch {
		case c == '(' || c == ')':
			toks = append(toks, string(c))
			i++
		case c == ' ' || c == '\n' || c == '\t' || c == '\r':
			i++
		case c == ';':
			for i < n && s[i] != '\n' {
				i++
			}
		case c == '|':
			j := i + 1
			for j < n && s[j] != '|' {
				j++
			}
			toks = append(toks, s[i:j+1])
			i = j + 1
		case c == '"':
			j := i + 1
			for j < n && s[j] != '"' {
				j++
			}
			toks = append(toks, s[i:j+1])
			i = j + 1
		default:
			j := i
			for j < n && !strings.ContainsRune("() \n\t\r", rune(s[j])) {
				j++
			}
			toks = append(toks, s[i:j])
			i = j
		}
	}
	return toks
}

func skipSexpr(toks []string, i int) int {
	if i >= len(toks) {
		return i
	}
	if toks[i] != "(" {
		return i + 1
	}
	d := 0
	for i < len(toks) {
		if toks[i] == "(" {
			d++
		} else if toks[i] == ")" {
			d--
			if d == 0 {
				return i + 1
			}
		}
		i++
	}
	return i
}

func modelInt(v string) (int64, bool) {
	v = strings.TrimSpace(v)
	v = strings.ReplaceAll(v, " ", "")
	neg := false
	if strings.HasPrefix(v, "(-") && strings.HasSuffix(v, ")") {
		neg = true
		v = v[2 : len(v)-1]
	}
	b, ok := new(big.Int).SetString(v, 10)
	if !ok || !b.IsInt64() {
		return 0, false
	}
	if neg {
		return -b.Int64(), true
	}
	return b.Int64(), true
}

func sortedKeys[V any](m map[string]V) []string {
	ks := make([]string, 0, len(m))
	for k := range m {
		ks = append(ks, k)
	}
	sort.Strings(ks)
	return ks
}

func writeFile(path, content string) error {
	return os.WriteFile(path, []byte(content), 0o644)
}

// dropStrAxioms removes the quantified axioms over the uninterpreted sort Str from a script
func dropStrAxioms(script string) string {
	var b strings.Builder
	changed := false
	for _, ln := range strings.SplitAfter(script, "\n") {
		if strings.HasPrefix(ln, "(assert (forall ((s Str)") || strings.HasPrefix(ln, "(assert (forall ((a Str)") {
			changed = true
			continue
		}
		b.WriteString(ln)
	}
	if !changed {
		return script
	}
	return b.String()
}
