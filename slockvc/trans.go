package main

// SSA -> verification conditions.

import (
	"fmt"
	"go/ast"
	"go/constant"
	"go/token"
	"go/types"
	"math/big"
	"sort"
	"strings"

	"golang.org/x/tools/go/ssa"
)

type retRec struct {
	cut   int // number of assumptions made when the return was reached in translation order
	reach string
	val   Val
	heap  Heap
	pos   token.Pos
	block int
}

type deferRec struct {
	call  *ssa.Defer
	reach string
}

type nameBind struct {
	v      ssa.Value
	block  *ssa.BasicBlock
	order  int
	isAddr bool
}

type loopInfo struct {
	head    *ssa.BasicBlock
	body    map[int]bool
	ordinal int
	mod     *ModSet
	latches []*ssa.BasicBlock
}

type Frame struct {
	headHeap   map[int]Heap // loop ordinal -> heap at the start of an iteration
	vc         *VC
	fn         *ssa.Function
	depth      int
	atEdge     bool // a loop-edge clause is being evaluated (see lookupNameAt)
	path       string
	vals       map[ssa.Value]Val
	reach      map[int]string
	exitHeap   map[int]Heap
	edge       map[[2]int]string
	loops      map[int]*loopInfo
	defers     []deferRec
	names      map[string][]nameBind
	contract   *Contract
	isTop      bool
	entryHeap  Heap
	rets       []retRec
	params     []Val
	callOrd    map[string]int
	safeOrd    map[string]int
	curBlock   *ssa.BasicBlock
	curReach   string
	heapIn     Heap
	entryReach string
	curQual    string
	instrOrd   map[ssa.Instruction]int
	curInstr   ssa.Instruction
	qualOrd    map[string]int
	secHeap    Heap // heap right after the last "havoc" site clause (start of the critical section)
	preCall    Heap // heap just before the current call (before(e) in "after" site clauses)
	unrolling  map[int]bool
	heap       Heap // current heap while translating a block
	oldHeap    Heap // heap for old() in spec expressions (entry heap of the top function / callee)
	panicked   bool
}

func shortFn(fn *ssa.Function) string {
	n := fnName(fn)
	return n
}

// ---------------------------------------------------------------- constants

func (vc *VC) constVal(c *ssa.Const) Val {
	t := c.Type()
	if c.Value == nil {
		// zero value / nil
		return Val{T: vc.zeroOf(t), Typ: t}
	}
	switch c.Value.Kind() {
	case constant.Bool:
		if constant.BoolVal(c.Value) {
			return Val{T: "true", Typ: t}
		}
		return Val{T: "false", Typ: t}
	case constant.String:
		return Val{T: vc.strLit(constant.StringVal(c.Value)), Typ: t}
	case constant.Int:
		if isFloat(t) {
			return Val{T: vc.free("fltc", "Flt"), Typ: t}
		}
		bi, _ := new(big.Int).SetString(c.Value.ExactString(), 10)
		v := Val{T: sBig(bi), Typ: t}
		if bi.Sign() >= 0 {
			v.Mask = new(big.Int).Set(bi)
		}
		return v
	case constant.Float, constant.Complex:
		if _, ok := intInfo(t); ok {
			f, _ := constant.Int64Val(constant.ToInt(c.Value))
			return Val{T: sInt(f), Typ: t}
		}
		return Val{T: vc.free("fltc", "Flt"), Typ: t}
	}
	return Val{T: vc.zeroOf(t), Typ: t}
}

// ---------------------------------------------------------------- values

func (fr *Frame) val(v ssa.Value) Val {
	switch x := v.(type) {
	case *ssa.Const:
		return fr.vc.constVal(x)
	case *ssa.Function:
		return Val{T: fr.vc.funcRef(x), Typ: x.Type(), Fn: x}
	case *ssa.Global:
		return fr.vc.globalVal(x)
	case *ssa.Builtin:
		return Val{T: "0", Typ: x.Type()}
	}
	if r, ok := fr.vals[v]; ok {
		return r
	}
	// value used before definition (should not happen in RPO except through back edges)
	fr.vc.warn("use before def: %s in %s", v.Name(), fnName(fr.fn))
	r := fr.vc.freshVal("undef_"+v.Name(), v.Type(), fr.heap)
	fr.vals[v] = r
	return r
}

func (vc *VC) funcRef(fn *ssa.Function) string {
	n := "fn$" + sanitize(fnName(fn))
	if _, ok := vc.defIdx[n]; !ok {
		d := &Def{Name: n, Sort: "Int", Rng: sApp("<", "0", n)}
		vc.defs = append(vc.defs, d)
		vc.defIdx[n] = d
	}
	return n
}

func (vc *VC) globalVal(g *ssa.Global) Val {
	// a global is a pointer to a cell holding the value
	n := "glob$" + sanitize(normName(g.String()))
	if _, ok := vc.defIdx[n]; !ok {
		d := &Def{Name: n, Sort: "Int", Rng: sApp("<", "0", n)}
		vc.defs = append(vc.defs, d)
		vc.defIdx[n] = d
	}
	pt := g.Type().(*types.Pointer).Elem()
	v := Val{T: n, Typ: g.Type(), Glob: g}
	switch pt.Underlying().(type) {
	case *types.Struct:
	case *types.Array:
	default:
		v.Loc = vc.cellLoc(pt, n)
	}
	return v
}

// fresh unconstrained value of a Go type
func (vc *VC) freshVal(hint string, t types.Type, h Heap) Val {
	if tup, ok := t.(*types.Tuple); ok {
		var es []Val
		for i := 0; i < tup.Len(); i++ {
			es = append(es, vc.freshVal(fmt.Sprintf("%s_%d", hint, i), tup.At(i).Type(), h))
		}
		return Val{Typ: t, Elems: es}
	}
	n := vc.free(hint, vc.sortOf(t))
	alloc := ""
	if h.m != nil {
		alloc = vc.alloc(h)
	}
	vc.setRng(n, vc.wf(n, t, alloc))
	v := Val{T: n, Typ: t}
	vc.attachPtrLoc(&v)
	return v
}

// a pointer value given only as a reference term: derive its location from the type
func (vc *VC) attachPtrLoc(v *Val) {
	pt, ok := v.Typ.Underlying().(*types.Pointer)
	if !ok || v.Loc != nil {
		return
	}
	el := pt.Elem()
	switch el.Underlying().(type) {
	case *types.Struct, *types.Array:
		return
	}
	v.Loc = vc.cellLoc(el, v.T)
}

func (vc *VC) namedVal(hint string, v Val) Val {
	if v.Elems != nil || v.T == "" {
		return v
	}
	if _, isLit := litInt(v.T); isLit || v.T == "true" || v.T == "false" {
		return v
	}
	if _, ok := vc.defIdx[v.T]; ok {
		return v
	}
	n := vc.def(hint, vc.sortOf(v.Typ), v.T)
	nv := v
	nv.T = n
	return nv
}

// ---------------------------------------------------------------- integer arithmetic

func maskOfType(k intKind) *big.Int {
	if k.signed {
		return nil
	}
	return new(big.Int).Sub(pow2(k.bits), one)
}

func (vc *VC) wrap(term string, k intKind) string {
	m := pow2s(k.bits)
	if !k.signed {
		return sApp("mod", term, m)
	}
	h := pow2s(k.bits - 1)
	return sApp("-", sApp("mod", sApp("+", term, h), m), h)
}

// wrap for results known to be within one modulus of the range
func (vc *VC) wrap1(term string, k intKind) string {
	m := pow2s(k.bits)
	n := vc.def("ar", "Int", term)
	return sIte(sApp(">", n, k.max()), sApp("-", n, m), sIte(sApp("<", n, k.min()), sApp("+", n, m), n))
}

// bits of x selected by constant mask c (x non-negative or two's complement value of kind k)
func (vc *VC) andConst(x string, xk intKind, c *big.Int) string {
	// convert x to its unsigned representation first if signed
	ux := x
	if xk.signed {
		ux = sApp("mod", x, pow2s(xk.bits))
	}
	var parts []string
	i := 0
	n := c.BitLen()
	for i < n {
		if c.Bit(i) == 0 {
			i++
			continue
		}
		j := i
		for j < n && c.Bit(j) == 1 {
			j++
		}
		// run [i,j)
		t := ux
		if i > 0 {
			t = sApp("div", t, pow2s(i))
		}
		if j < xk.bits || xk.signed {
			t = sApp("mod", t, pow2s(j-i))
		}
		if i > 0 {
			t = sApp("*", t, pow2s(i))
		}
		parts = append(parts, t)
		i = j
	}
	if len(parts) == 0 {
		return "0"
	}
	if len(parts) == 1 {
		return parts[0]
	}
	return sApp("+", parts...)
}

func constOf(v Val) (*big.Int, bool) {
	return litInt(v.T)
}

func (vc *VC) binop(op token.Token, x, y Val, rt types.Type, fr *Frame, pos token.Pos) Val {
	// comparisons
	switch op {
	case token.EQL, token.NEQ:
		eq := vc.equal(x, y)
		if op == token.NEQ {
			eq = sNot(eq)
		}
		return Val{T: eq, Typ: rt}
	case token.LSS, token.LEQ, token.GTR, token.GEQ:
		m := map[token.Token]string{token.LSS: "<", token.LEQ: "<=", token.GTR: ">", token.GEQ: ">="}[op]
		if a, ok := constOf(x); ok {
			if b, ok := constOf(y); ok {
				c := a.Cmp(b)
				r := (op == token.LSS && c < 0) || (op == token.LEQ && c <= 0) || (op == token.GTR && c > 0) || (op == token.GEQ && c >= 0)
				if r {
					return Val{T: "true", Typ: rt}
				}
				return Val{T: "false", Typ: rt}
			}
		}
		if isString(x.Typ) {
			vc.declFun("strless", "(Str Str) Bool")
			r := vc.free("strcmp", "Bool")
			return Val{T: r, Typ: rt}
		}
		if isFloat(x.Typ) {
			return Val{T: vc.free("fltcmp", "Bool"), Typ: rt}
		}
		return Val{T: sApp(m, x.T, y.T), Typ: rt}
	case token.LAND:
		return Val{T: sAnd(x.T, y.T), Typ: rt}
	case token.LOR:
		return Val{T: sOr(x.T, y.T), Typ: rt}
	}
	if isString(rt) && op == token.ADD {
		return Val{T: sApp("sconcat", x.T, y.T), Typ: rt}
	}
	if isFloat(rt) {
		return Val{T: vc.free("fltop", "Flt"), Typ: rt}
	}
	if isBool(rt) {
		switch op {
		case token.AND:
			return Val{T: sAnd(x.T, y.T), Typ: rt}
		case token.OR:
			return Val{T: sOr(x.T, y.T), Typ: rt}
		case token.XOR:
			return Val{T: sNot(sEq(x.T, y.T)), Typ: rt}
		}
	}
	k, ok := intInfo(rt)
	if !ok {
		vc.warn("binop %s on %s unsupported", op, rt)
		return vc.freshVal("binop", rt, Heap{})
	}
	full := maskOfType(k)
	// largest value whose bit pattern is also its mathematical value: masks of signed operands stay below the sign bit
	posFull := full
	if k.signed {
		posFull = new(big.Int).Sub(pow2(k.bits-1), big.NewInt(1))
	}
	res := Val{Typ: rt}
	xc, xIsC := constOf(x)
	yc, yIsC := constOf(y)
	if xIsC && yIsC {
		if r, ok := foldConst(op, xc, yc, k); ok {
			v := Val{T: sBig(r), Typ: rt}
			if r.Sign() >= 0 {
				v.Mask = r
			}
			return v
		}
	}
	switch op {
	case token.ADD:
		if x.Mask != nil && y.Mask != nil && new(big.Int).And(x.Mask, y.Mask).Sign() == 0 && new(big.Int).Or(x.Mask, y.Mask).Cmp(posFull) <= 0 {
			res.T = sApp("+", x.T, y.T)
			res.Mask = new(big.Int).Or(x.Mask, y.Mask)
			return res
		}
		res.T = vc.wrap1(sApp("+", x.T, y.T), k)
	case token.SUB:
		res.T = vc.wrap1(sApp("-", x.T, y.T), k)
	case token.MUL:
		res.T = vc.wrap(sApp("*", x.T, y.T), k)
	case token.QUO, token.REM:
		if fr != nil && vc.safe {
			fr.safeObl("div", sNot(sEq(y.T, "0")), pos, "division by zero")
		}
		// truncated division
		q := sIte(sApp(">=", x.T, "0"),
			sIte(sApp(">", y.T, "0"), sApp("div", x.T, y.T), sApp("-", sApp("div", x.T, sApp("-", y.T)))),
			sIte(sApp(">", y.T, "0"), sApp("-", sApp("div", sApp("-", x.T), y.T)), sApp("div", sApp("-", x.T), sApp("-", y.T))))
		if !k.signed {
			q = sApp("div", x.T, y.T)
		}
		if op == token.QUO {
			if k.signed {
				res.T = vc.wrap1(q, k) // MinInt / -1
			} else {
				res.T = q
			}
		} else {
			if !k.signed {
				res.T = sApp("mod", x.T, y.T)
			} else {
				qn := vc.def("quo", "Int", q)
				res.T = sApp("-", x.T, sApp("*", qn, y.T))
			}
		}
	case token.AND:
		var c *big.Int
		var o Val
		if yIsC {
			c, o = yc, x
		} else if xIsC {
			c, o = xc, y
		}
		if c != nil {
			if c.Sign() < 0 {
				c = new(big.Int).Mod(c, pow2(k.bits))
			}
			if o.Mask != nil {
				and := new(big.Int).And(o.Mask, c)
				if and.Cmp(o.Mask) == 0 {
					return Val{T: o.T, Typ: rt, Mask: o.Mask}
				}
				if and.Sign() == 0 {
					return Val{T: "0", Typ: rt, Mask: big.NewInt(0)}
				}
			}
			t := vc.andConst(o.T, k, c)
			if k.signed {
				t = vc.wrap(t, k)
			}
			res.T = t
			if !k.signed {
				res.Mask = new(big.Int).Set(c)
				if o.Mask != nil {
					res.Mask.And(res.Mask, o.Mask)
				}
			}
			return res
		}
		vc.declFun("bitand", "(Int Int) Int")
		n := vc.def("band", "Int", sApp("bitand", x.T, y.T))
		if !k.signed {
			vc.setRng(n, sAnd(sApp("<=", "0", n), sApp("<=", n, x.T), sApp("<=", n, y.T)))
		} else {
			vc.setRng(n, vc.wf(n, rt, ""))
		}
		res.T = n
		return res
	case token.OR, token.XOR:
		if x.Mask != nil && y.Mask != nil && new(big.Int).And(x.Mask, y.Mask).Sign() == 0 && new(big.Int).Or(x.Mask, y.Mask).Cmp(posFull) <= 0 {
			res.T = sApp("+", x.T, y.T)
			res.Mask = new(big.Int).Or(x.Mask, y.Mask)
			res.Dig = mergeDigits(x.Dig, y.Dig)
			return res
		}
		var c *big.Int
		var o Val
		if yIsC {
			c, o = yc, x
		} else if xIsC {
			c, o = xc, y
		}
		if c != nil && !k.signed && c.Sign() >= 0 {
			a := vc.def("andc", "Int", vc.andConst(o.T, k, c))
			if op == token.OR {
				res.T = sApp("-", sApp("+", o.T, sBig(c)), a)
			} else {
				res.T = sApp("-", sApp("+", o.T, sBig(c)), sApp("*", "2", a))
			}
			return res
		}
		fname := "bitor"
		if op == token.XOR {
			fname = "bitxor"
		}
		vc.declFun(fname, "(Int Int) Int")
		n := vc.def("bop", "Int", sApp(fname, x.T, y.T))
		vc.setRng(n, vc.wf(n, rt, ""))
		if op == token.OR && !k.signed {
			vc.setRng(n, sAnd(sApp("<=", x.T, n), sApp("<=", y.T, n), sApp("<=", n, sApp("+", x.T, y.T))))
		}
		res.T = n
		return res
	case token.AND_NOT:
		if yIsC && yc.Sign() >= 0 {
			a := vc.def("andc", "Int", vc.andConst(x.T, k, yc))
			res.T = sApp("-", x.T, a)
			if k.signed {
				res.T = vc.wrap(res.T, k)
			}
			return res
		}
		vc.declFun("bitandnot", "(Int Int) Int")
		n := vc.def("bop", "Int", sApp("bitandnot", x.T, y.T))
		vc.setRng(n, vc.wf(n, rt, ""))
		res.T = n
		return res
	case token.SHL:
		if yIsC && yc.IsInt64() {
			s := int(yc.Int64())
			if s >= k.bits {
				return Val{T: "0", Typ: rt, Mask: big.NewInt(0)}
			}
			if x.Mask != nil {
				nm := new(big.Int).Lsh(x.Mask, uint(s))
				if nm.Cmp(posFull) <= 0 {
					res.T = sApp("*", x.T, pow2s(s))
					res.Mask = nm
					if s%8 == 0 && x.Dig != nil {
						for i := 0; i < s/8; i++ {
							res.Dig = append(res.Dig, "0")
						}
						res.Dig = append(res.Dig, x.Dig...)
					}
					return res
				}
			}
			res.T = vc.wrap(sApp("*", x.T, pow2s(s)), k)
			if !k.signed {
				res.Mask = new(big.Int).And(new(big.Int).Lsh(full, uint(s)), full)
			}
			return res
		}
		vc.declFun("pow2f", "(Int) Int")
		vc.assume("true", sApp("<", "0", sApp("pow2f", y.T)), "pow2 positive")
		res.T = sIte(sApp(">=", y.T, sInt(int64(k.bits))), "0", vc.wrap(sApp("*", x.T, sApp("pow2f", y.T)), k))
		return res
	case token.SHR:
		if yIsC && yc.IsInt64() {
			s := int(yc.Int64())
			if s >= k.bits && !k.signed {
				return Val{T: "0", Typ: rt, Mask: big.NewInt(0)}
			}
			if !k.signed && s%8 == 0 && s > 0 && k.bits > 8 && !xIsC {
				d := vc.digits(x, k.bits)
				nd := d[s/8:]
				res.T = digSum(nd)
				res.Dig = nd
				res.Mask = new(big.Int).Rsh(full, uint(s))
				if x.Mask != nil {
					res.Mask = new(big.Int).Rsh(x.Mask, uint(s))
				}
				return res
			}
			res.T = sApp("div", x.T, pow2s(s))
			if x.Mask != nil {
				res.Mask = new(big.Int).Rsh(x.Mask, uint(s))
			} else if !k.signed {
				res.Mask = new(big.Int).Rsh(full, uint(s))
			}
			return res
		}
		vc.declFun("pow2f", "(Int) Int")
		vc.assume("true", sApp("<", "0", sApp("pow2f", y.T)), "pow2 positive")
		res.T = sApp("div", x.T, sApp("pow2f", y.T))
		return res
	default:
		vc.warn("binop %s unsupported", op)
		return vc.freshVal("binop", rt, Heap{})
	}
	return res
}

func (vc *VC) equal(x, y Val) string {
	t := x.Typ
	if t == nil {
		t = y.Typ
	}
	if t != nil {
		switch u := t.Underlying().(type) {
		case *types.Array:
			if u.Len() <= 64 {
				var cs []string
				for i := int64(0); i < u.Len(); i++ {
					cs = append(cs, vc.equal(Val{T: sApp("select", x.T, sInt(i)), Typ: u.Elem()}, Val{T: sApp("select", y.T, sInt(i)), Typ: u.Elem()}))
				}
				return sAnd(cs...)
			}
			return vc.free("arrcmp", "Bool")
		case *types.Struct:
			si := vc.structInfoOf(t)
			var cs []string
			for i := 0; i < u.NumFields(); i++ {
				cs = append(cs, vc.equal(Val{T: sApp(si.fields[i], x.T), Typ: u.Field(i).Type()}, Val{T: sApp(si.fields[i], y.T), Typ: u.Field(i).Type()}))
			}
			return sAnd(cs...)
		case *types.Pointer:
			if x.Loc != nil && x.Loc.Kind != locCell || y.Loc != nil && y.Loc.Kind != locCell {
				// interior pointers: only comparisons with nil are decided
				if x.T == "0" || y.T == "0" {
					return "false"
				}
				return vc.free("ptrcmp", "Bool")
			}
		case *types.Slice:
			// slices compare with nil only: a slice is nil iff it has no backing array
			if y.T == "(mk-slice 0 0 0 0)" {
				return sEq(sApp("s-arr", x.T), "0")
			}
			if x.T == "(mk-slice 0 0 0 0)" {
				return sEq(sApp("s-arr", y.T), "0")
			}
		case *types.Interface:
			// comparing with nil interface is exact; other comparisons compare tag and payload
			if yt := y.Typ; yt != nil && !types.IsInterface(yt) && x.Typ != nil && types.IsInterface(x.Typ) {
				return vc.free("ifacecmp", "Bool")
			}
		case *types.Basic:
			if u.Info()&types.IsFloat != 0 {
				return vc.free("fltcmp", "Bool")
			}
		}
	}
	return sEq(x.T, y.T)
}

func (vc *VC) convert(x Val, to types.Type, h *Heap, reach string) Val {
	from := x.Typ
	if fk, ok := intInfo(from); ok {
		if tk, ok2 := intInfo(to); ok2 {
			res := Val{Typ: to}
			// value preserved?
			fits := false
			if !fk.signed && !tk.signed && fk.bits <= tk.bits {
				fits = true
			}
			if fk.signed && tk.signed && fk.bits <= tk.bits {
				fits = true
			}
			if !fk.signed && tk.signed && fk.bits < tk.bits {
				fits = true
			}
			if x.Mask != nil {
				lim := maskOfType(tk)
				if tk.signed {
					lim = new(big.Int).Sub(pow2(tk.bits-1), one)
				}
				if x.Mask.Cmp(lim) <= 0 {
					fits = true
				}
			}
			if fits {
				res.T = x.T
				res.Mask = x.Mask
				res.Dig = x.Dig
				if res.Mask == nil && !fk.signed {
					res.Mask = maskOfType(fk)
				}
				if res.Dig == nil && !fk.signed && fk.bits == 8 {
					res.Dig = []string{x.T}
				}
				return res
			}
			if !fk.signed && !tk.signed && tk.bits%8 == 0 && fk.bits > tk.bits {
				if _, isC := constOf(x); !isC {
					d := vc.digits(x, fk.bits)[:tk.bits/8]
					res.T = digSum(d)
					res.Dig = d
					res.Mask = maskOfType(tk)
					return res
				}
			}
			res.T = vc.wrap(x.T, tk)
			if !tk.signed {
				res.Mask = maskOfType(tk)
				if x.Mask != nil {
					res.Mask = new(big.Int).And(res.Mask, x.Mask)
				}
			}
			return res
		}
		if isFloat(to) {
			return Val{T: vc.free("i2f", "Flt"), Typ: to}
		}
		if isString(to) {
			return Val{T: vc.free("i2s", "Str"), Typ: to}
		}
	}
	if isFloat(from) {
		if _, ok := intInfo(to); ok {
			return vc.freshVal("f2i", to, Heap{})
		}
		return Val{T: vc.free("f2f", "Flt"), Typ: to}
	}
	// string <-> []byte
	if isString(from) {
		if sl, ok := to.Underlying().(*types.Slice); ok {
			if b, ok := sl.Elem().Underlying().(*types.Basic); ok && b.Kind() == types.Uint8 {
				ref := vc.newRef(h, "s2b")
				l := vc.elemLoc(sl.Elem(), ref, "0")
				arr := vc.free("s2barr", "(Array Int Int)")
				vc.assume(reach, fmt.Sprintf("(forall ((i Int)) (! (=> (and (<= 0 i) (< i (slen %s))) (= (select %s i) (sat %s i))) :pattern ((select %s i))))", x.T, arr, x.T, arr), "[]byte(string)")
				vc.hset(h, l.Map, sApp("store", vc.hget(*h, l.Map), ref, arr))
				n := sApp("slen", x.T)
				return Val{T: sApp("mk-slice", ref, "0", n, n), Typ: to}
			}
			return vc.freshVal("s2r", to, *h)
		}
	}
	if isString(to) {
		if sl, ok := from.Underlying().(*types.Slice); ok {
			if b, ok := sl.Elem().Underlying().(*types.Basic); ok && b.Kind() == types.Uint8 {
				s := vc.free("b2s", "Str")
				l := vc.elemLoc(sl.Elem(), sApp("s-arr", x.T), "0")
				arr := sApp("select", vc.hget(*h, l.Map), sApp("s-arr", x.T))
				vc.assume(reach, sEq(sApp("slen", s), sApp("s-len", x.T)), "string([]byte) len")
				vc.assume(reach, fmt.Sprintf("(forall ((i Int)) (! (=> (and (<= 0 i) (< i (s-len %s))) (= (sat %s i) (select %s (+ (s-off %s) i)))) :pattern ((sat %s i))))", x.T, s, arr, x.T, s), "string([]byte)")
				return Val{T: s, Typ: to}
			}
			return Val{T: vc.free("r2s", "Str"), Typ: to}
		}
	}
	if vc.sortOf(from) == vc.sortOf(to) {
		nv := x
		nv.Typ = to
		nv.Loc = nil
		if x.Loc != nil {
			nv.Loc = x.Loc
		}
		return nv
	}
	vc.warn("convert %s -> %s unsupported", from, to)
	return vc.freshVal("conv", to, *h)
}

// ---------------------------------------------------------------- safe obligations

func (fr *Frame) safeObl(kind, cond string, pos token.Pos, what string) {
	vc := fr.vc
	if !vc.safe {
		return
	}
	if vc.safeTopOnly && fr.depth > 0 {
		return // inlined callees are swept on their own
	}
	if cond == "true" {
		return
	}
	// constant conditions are decided here
	if kind == "index" || kind == "slice" {
		if constTrue(cond) {
			return
		}
	}
	text := ""
	switch kind {
	case "index":
		text = vc.e.exprTextAt(fr.fn, pos, func(n ast.Node) bool { _, ok := n.(*ast.IndexExpr); return ok })
	case "slice":
		text = vc.e.exprTextAt(fr.fn, pos, func(n ast.Node) bool { _, ok := n.(*ast.SliceExpr); return ok })
	case "nil":
		text = vc.e.exprTextAt(fr.fn, pos, func(n ast.Node) bool {
			switch n.(type) {
			case *ast.SelectorExpr, *ast.StarExpr:
				return true
			}
			return false
		})
	default:
		text = vc.e.exprTextAt(fr.fn, pos, func(n ast.Node) bool { _, ok := n.(ast.Expr); return ok })
	}
	if text == "" {
		text = what
	}
	base := fmt.Sprintf("safe/%s/%s:%s", fnName(fr.fn), kind, text)
	fr.safeOrd[base]++
	name := base
	if fr.safeOrd[base] > 1 {
		name = fmt.Sprintf("%s#%d", base, fr.safeOrd[base])
	}
	if fr.path != "" {
		name = name + "@" + fr.path
	}
	o := vc.oblige("safe", name, nil, fr.curReach, cond, fr.fn, pos, text)
	o.Extra = map[string]string{"what": what}
}

func (fr *Frame) nonNil(v Val, pos token.Pos) {
	if v.Loc != nil && v.Loc.Kind != locCell {
		return // interior pointer: never nil
	}
	if v.T == "" || v.T == "0" {
		return
	}
	// execution continues past a dereference only when the pointer is not nil (the nil case panics and is
	// the subject of the safety obligation generated below in safe mode)
	defer func() {
		if fr.curReach != "" && fr.curReach != "false" {
			fr.vc.assume(fr.curReach, sNot(sEq(v.T, "0")), "dereferenced")
		}
	}()
	if !fr.vc.safe {
		return
	}
	if fr.vc.safeTopOnly && fr.fn.Signature.Recv() != nil && len(fr.params) > 0 && v.T == fr.params[0].T {
		return // sweep assumption: methods are invoked on non-nil receivers (listed in the evidence)
	}
	if _, ok := fr.vc.defIdx[v.T]; ok {
		// skip obviously fresh allocations
		if d := fr.vc.defIdx[v.T]; strings.HasPrefix(d.Name, "new_") {
			return
		}
	}
	fr.safeObl("nil", sNot(sEq(v.T, "0")), pos, "nil dereference")
}

// ---------------------------------------------------------------- body translation

func (vc *VC) newFrame(fn *ssa.Function, depth int, path string) *Frame {
	fr := &Frame{vc: vc, fn: fn, depth: depth, path: path, vals: map[ssa.Value]Val{}, reach: map[int]string{},
		exitHeap: map[int]Heap{}, edge: map[[2]int]string{}, loops: map[int]*loopInfo{}, names: map[string][]nameBind{},
		callOrd: map[string]int{}, safeOrd: map[string]int{}}
	fr.contract = vc.e.contracts[fnName(fn)]
	return fr
}

func (fr *Frame) analyzeLoops() {
	fn := fr.fn
	// back edges: s -> h where h dominates s
	for _, b := range fn.Blocks {
		for _, s := range b.Succs {
			if s.Dominates(b) {
				li := fr.loops[s.Index]
				if li == nil {
					li = &loopInfo{head: s, body: map[int]bool{s.Index: true}}
					fr.loops[s.Index] = li
				}
				li.latches = append(li.latches, b)
				// natural loop
				stack := []*ssa.BasicBlock{b}
				for len(stack) > 0 {
					x := stack[len(stack)-1]
					stack = stack[:len(stack)-1]
					if li.body[x.Index] {
						continue
					}
					li.body[x.Index] = true
					for _, p := range x.Preds {
						stack = append(stack, p)
					}
				}
			}
		}
	}
	var heads []int
	for h := range fr.loops {
		heads = append(heads, h)
	}
	sort.Ints(heads)
	for i, h := range heads {
		fr.loops[h].ordinal = i + 1
	}
}

func (fr *Frame) rpo() []*ssa.BasicBlock {
	fn := fr.fn
	seen := map[int]bool{}
	var post []*ssa.BasicBlock
	var dfs func(b *ssa.BasicBlock)
	dfs = func(b *ssa.BasicBlock) {
		seen[b.Index] = true
		for _, s := range b.Succs {
			if s.Dominates(b) { // back edge
				continue
			}
			if !seen[s.Index] {
				dfs(s)
			}
		}
		post = append(post, b)
	}
	dfs(fn.Blocks[0])
	// recover block (if any) is reachable only by panics: ignore
	out := make([]*ssa.BasicBlock, len(post))
	for i := range post {
		out[len(post)-1-i] = post[i]
	}
	return out
}

func (fr *Frame) collectNames() {
	ord := 0
	fr.instrOrd = map[ssa.Instruction]int{}
	for _, b := range fr.fn.Blocks {
		for _, in := range b.Instrs {
			ord++
			fr.instrOrd[in] = ord
			switch x := in.(type) {
			case *ssa.DebugRef:
				if id, ok := x.Expr.(*ast.Ident); ok {
					if v, isVar := x.Object().(*types.Var); isVar && !v.IsField() {
						fr.names[id.Name] = append(fr.names[id.Name], nameBind{x.X, b, ord, x.IsAddr})
					}
				}
			case *ssa.Phi:
				if x.Comment != "" {
					fr.names[x.Comment] = append(fr.names[x.Comment], nameBind{x, b, ord, false})
				}
			}
		}
	}
}

// resolve a source-level variable name at (the start of) block at
func (fr *Frame) lookupName(name string, at *ssa.BasicBlock, atEnd bool) (ssa.Value, bool, bool) {
	return fr.lookupNameAt(name, at, atEnd, 0)
}

// maxOrd > 0: bindings made in block 'at' after that instruction are not visible yet
func (fr *Frame) lookupNameAt(name string, at *ssa.BasicBlock, atEnd bool, maxOrd int) (ssa.Value, bool, bool) {
	for _, p := range fr.fn.Params {
		if p.Name() == name {
			// may be shadowed by a later phi of the same name
			break
		}
	}
	// phi at the block itself
	for _, in := range at.Instrs {
		if ph, ok := in.(*ssa.Phi); ok {
			if ph.Comment == name {
				return ph, false, true
			}
		} else {
			break
		}
	}
	// at the end of a block, a variable that a successor merges with a phi has exactly the value the phi takes from
	// this edge (increments like x++ leave no debug binding of their own)
	if atEnd && maxOrd == 0 && fr.atEdge {
		for _, s := range at.Succs {
			for _, in := range s.Instrs {
				ph, ok := in.(*ssa.Phi)
				if !ok {
					break
				}
				if ph.Comment == name {
					if k := predIndex(s, at); k >= 0 && k < len(ph.Edges) {
						if _, isConst := ph.Edges[k].(*ssa.Const); !isConst {
							return ph.Edges[k], false, true
						}
					}
				}
			}
		}
	}
	var best *nameBind
	for i := range fr.names[name] {
		nb := &fr.names[name][i]
		ok := false
		if nb.block == at {
			ok = atEnd && (maxOrd == 0 || nb.order < maxOrd)
			if _, isPhi := nb.v.(*ssa.Phi); isPhi {
				ok = true
			}
		} else if nb.block.Dominates(at) {
			ok = true
		}
		if !ok {
			continue
		}
		if best == nil || nb.order > best.order {
			best = nb
		}
	}
	if best != nil {
		// a value bound by DebugRef to this name must itself dominate
		return best.v, best.isAddr, true
	}
	for _, p := range fr.fn.Params {
		if p.Name() == name {
			return p, false, true
		}
	}
	for _, fv := range fr.fn.FreeVars {
		if fv.Name() == name {
			return fv, true, true
		}
	}
	if bs := fr.names[name]; len(bs) > 0 {
		// the variable exists in this function but is not defined on the paths reaching this point
		return undefinedHere{bs[0].v}, bs[0].isAddr, true
	}
	return nil, false, false
}

// marker: a variable of the function that has no value at the point of evaluation
type undefinedHere struct{ ssa.Value }

// run translates the body. args are bound to params. Returns merged result, heap, reach.
func (fr *Frame) run(args []Val, entryReach string, heapIn Heap) (Val, Heap, string) {
	vc := fr.vc
	fn := fr.fn
	fr.params = args
	for i, p := range fn.Params {
		if i < len(args) {
			fr.vals[p] = args[i]
		}
	}
	fr.entryHeap = heapIn.clone()
	if fr.oldHeap.m == nil {
		fr.oldHeap = fr.entryHeap
	}
	fr.analyzeLoops()
	fr.collectNames()
	order := fr.rpo()
	fr.heapIn = heapIn
	fr.entryReach = entryReach
	done := map[int]bool{}
	for _, b := range order {
		if done[b.Index] {
			continue
		}
		if li := fr.loops[b.Index]; li != nil {
			if k := fr.unrollCount(li); k > 0 {
				fr.unrollLoop(li, order, k, done)
				continue
			}
		}
		fr.block(b, nil)
	}
	// merge returns
	if len(fr.rets) == 0 {
		return Val{}, heapIn.clone(), "false"
	}
	var conds []string
	var hs []Heap
	var vs []Val
	for _, r := range fr.rets {
		conds = append(conds, r.reach)
		hs = append(hs, r.heap)
		vs = append(vs, r.val)
	}
	outReach := sOr(conds...)
	if len(conds) > 1 {
		outReach = vc.def("ret_"+fn.Name(), "Bool", outReach)
	}
	h := vc.mergeHeaps(conds, hs)
	var rv Val
	res := fn.Signature.Results()
	if res.Len() == 1 {
		rv = vc.mergeVals("ret", res.At(0).Type(), conds, vs)
	} else if res.Len() > 1 {
		rv = vc.mergeVals("ret", res, conds, vs)
	}
	return rv, h, outReach
}

func predIndex(b, p *ssa.BasicBlock) int {
	for i, q := range b.Preds {
		if q == p {
			return i
		}
	}
	return -1
}

func (vc *VC) mergeVals(hint string, t types.Type, conds []string, vs []Val) Val {
	if len(vs) == 1 {
		return vs[0]
	}
	if tup, ok := t.(*types.Tuple); ok {
		out := Val{Typ: t}
		for i := 0; i < tup.Len(); i++ {
			var es []Val
			for _, v := range vs {
				if i < len(v.Elems) {
					es = append(es, v.Elems[i])
				} else {
					es = append(es, Val{T: vc.zeroOf(tup.At(i).Type()), Typ: tup.At(i).Type()})
				}
			}
			out.Elems = append(out.Elems, vc.mergeVals(fmt.Sprintf("%s_%d", hint, i), tup.At(i).Type(), conds, es))
		}
		return out
	}
	same := true
	for _, v := range vs {
		if v.T != vs[0].T || v.Loc != vs[0].Loc {
			same = false
		}
	}
	if same {
		return vs[0]
	}
	// interior pointers cannot be merged symbolically
	for _, v := range vs {
		if v.Loc != nil && v.Loc.Kind != locCell {
			vc.warn("phi of interior pointers (%s): value abstracted", hint)
			return vc.freshVal(hint, t, Heap{})
		}
	}
	term := vs[len(vs)-1].T
	for i := len(vs) - 2; i >= 0; i-- {
		term = sIte(conds[i], vs[i].T, term)
	}
	out := Val{T: vc.def(hint, vc.sortOf(t), term), Typ: t}
	// masks: union
	var m *big.Int
	for i, v := range vs {
		if v.Mask == nil {
			m = nil
			break
		}
		if i == 0 {
			m = new(big.Int).Set(v.Mask)
		} else {
			m.Or(m, v.Mask)
		}
	}
	out.Mask = m
	// closures: keep if identical
	if vs[0].Fn != nil {
		all := true
		for _, v := range vs {
			if v.Fn != vs[0].Fn {
				all = false
			}
		}
		if all {
			out.Fn = vs[0].Fn
			out.Bind = vs[0].Bind
		}
	}
	vc.attachPtrLoc(&out)
	return out
}

// ---------------------------------------------------------------- loops

func (fr *Frame) loopModSet(li *loopInfo) *ModSet {
	if li.mod != nil {
		return li.mod
	}
	ms := &ModSet{Maps: map[string]bool{}}
	for _, b := range fr.fn.Blocks {
		if !li.body[b.Index] {
			continue
		}
		for _, in := range b.Instrs {
			fr.vc.e.instrMods(in, ms, map[*ssa.Function]bool{fr.fn: true}, fr, false)
		}
	}
	li.mod = ms
	return ms
}

func (fr *Frame) enterLoop(li *loopInfo) {
	vc := fr.vc
	ms := fr.loopModSet(li)
	if ms.All {
		vc.havocExcept(&fr.heap, ms.Except)
	}
	for _, m := range ms.list() {
		vc.havocMap(&fr.heap, m)
	}
	vc.havocMap(&fr.heap, "$alloc")
	// path counters of calls are not loop invariant (only those of callees that can run inside the loop)
	inLoop := map[string]bool{}
	for _, b := range fr.fn.Blocks {
		if li.body[b.Index] {
			fr.vc.e.calledNames(b, inLoop, map[*ssa.Function]bool{}, 0)
		}
	}
	anyLast := false
	for name := range vc.mapSorts {
		if strings.HasPrefix(name, "$calls_$last_") && (inLoop["*"] || inLoop[strings.TrimPrefix(name, "$calls_$last_")]) {
			anyLast = true
		}
	}
	if anyLast {
		old := vc.hget(fr.heap, "$calls_$tick")
		n := vc.free("$calls_$tick", "Int")
		vc.setRng(n, sApp("<=", old, n))
		fr.heap.m["$calls_$tick"] = n
	}
	for name := range vc.mapSorts {
		if name == "$calls_$tick" {
			continue
		}
		if strings.HasPrefix(name, "$calls_$last_") {
			if inLoop["*"] || inLoop[strings.TrimPrefix(name, "$calls_$last_")] {
				old := vc.hget(fr.heap, name)
				n := vc.free(name, "Int")
				vc.setRng(n, sAnd(sApp("<=", old, n), sApp("<=", n, vc.hget(fr.heap, "$calls_$tick"))))
				fr.heap.m[name] = n
			}
			continue
		}
		if strings.HasPrefix(name, "$calls_") && (inLoop["*"] || inLoop[strings.TrimPrefix(name, "$calls_")]) {
			old := vc.hget(fr.heap, name)
			n := vc.free(name, "Int")
			vc.setRng(n, sApp("<=", old, n))
			fr.heap.m[name] = n
		}
	}
	for _, in := range li.head.Instrs {
		ph, ok := in.(*ssa.Phi)
		if !ok {
			break
		}
		fr.vals[ph] = vc.freshVal("loop_"+ph.Name()+"_"+ph.Comment, ph.Type(), fr.heap)
	}
	if fr.contract != nil {
		for _, cl := range fr.contract.LoopInv[li.ordinal] {
			env := fr.envAt(li.head, false, nil)
			t, err := env.evalBool(cl.Expr)
			if err != nil {
				vc.specError(fr.fn, cl, err)
				continue
			}
			vc.assume(fr.curReach, t, fmt.Sprintf("loop#%d invariant", li.ordinal))
		}
	}
}

func (fr *Frame) checkInvariant(li *loopInfo, from *ssa.BasicBlock, cond string, heap Heap, which string) {
	if fr.contract == nil {
		return
	}
	vc := fr.vc
	for i, cl := range fr.contract.LoopInv[li.ordinal] {
		// bind phis of the head to the edge operands
		over := map[ssa.Value]Val{}
		idx := predIndex(li.head, from)
		for _, in := range li.head.Instrs {
			ph, ok := in.(*ssa.Phi)
			if !ok {
				break
			}
			over[ph] = fr.val(ph.Edges[idx])
		}
		env := fr.envAt(li.head, false, over)
		env.heap = heap
		t, err := env.evalBool(cl.Expr)
		if err != nil {
			vc.specError(fr.fn, cl, err)
			continue
		}
		name := fmt.Sprintf("%s/inv-%s/loop#%d:%s/edge%d", fnName(fr.fn), which, li.ordinal, clauseId(cl, i), fr.edgeOrdinal(li, from, which))
		if fr.path != "" {
			name += "@" + fr.path
		}
		o := vc.oblige("inv-"+which, name, cl.Tags, cond, t, fr.fn, li.head.Instrs[0].Pos(), cl.Src)
		o.Extra = map[string]string{"contract": fmt.Sprintf("%s:%d", cl.File, cl.Line)}
	}
}

// clauses of the form "loop#N entry <expr>" are asserted where the loop is entered from outside (in the scope of
// the block that jumps to the loop head); they are never assumed
func (fr *Frame) checkLoopEntry(li *loopInfo, from *ssa.BasicBlock, cond string, heap Heap) {
	if fr.contract == nil {
		return
	}
	vc := fr.vc
	for i, cl := range fr.contract.LoopEntry[li.ordinal] {
		env := fr.envAt(from, true, nil)
		env.heap = heap
		// athead(e) in an entry clause: the state in which the current iteration of the enclosing loop started
		if outer := fr.enclosingLoop(li); outer != nil {
			if h, ok := fr.headHeap[outer.ordinal]; ok {
				env.lhead = h
				env.lheadBlk = outer.head
			}
		}
		fr.atEdge = true
		t, err := env.evalBool(cl.Expr)
		fr.atEdge = false
		if err != nil {
			vc.specError(fr.fn, cl, err)
			continue
		}
		name := fmt.Sprintf("%s/loop-entry/loop#%d:%s/edge%d", fnName(fr.fn), li.ordinal, clauseId(cl, i), fr.edgeOrdinal(li, from, "entry"))
		if fr.path != "" {
			name += "@" + fr.path
		}
		o := vc.oblige("inv-entry", name, cl.Tags, cond, t, fr.fn, li.head.Instrs[0].Pos(), cl.Src)
		o.Extra = map[string]string{"contract": fmt.Sprintf("%s:%d", cl.File, cl.Line)}
	}
}

// the innermost loop (cut by an invariant, not unrolled) whose body contains the head of li
func (fr *Frame) enclosingLoop(li *loopInfo) *loopInfo {
	var best *loopInfo
	for _, l2 := range fr.loops {
		if l2 == li || !l2.body[li.head.Index] || fr.unrolling[l2.head.Index] {
			continue
		}
		if best == nil || len(l2.body) < len(best.body) {
			best = l2
		}
	}
	return best
}

// clauses of the form "loop#N backedge <expr>" are asserted at the end of every iteration, in the scope of
// the block the back edge leaves (the locals of the body are visible); they are never assumed
func (fr *Frame) checkBackedge(li *loopInfo, from *ssa.BasicBlock, cond string, heap Heap) {
	if fr.contract == nil {
		return
	}
	vc := fr.vc
	for i, cl := range fr.contract.LoopBack[li.ordinal] {
		env := fr.envAt(from, true, nil)
		env.heap = heap
		env.lhead = fr.headHeap[li.ordinal]
		env.lheadBlk = li.head
		fr.atEdge = true // the clause speaks about the state in which the edge is taken: variables have their end-of-block values
		t, err := env.evalBool(cl.Expr)
		fr.atEdge = false
		if err != nil {
			vc.specError(fr.fn, cl, err)
			continue
		}
		name := fmt.Sprintf("%s/backedge/loop#%d:%s/edge%d", fnName(fr.fn), li.ordinal, clauseId(cl, i), fr.edgeOrdinal(li, from, "pres"))
		if fr.path != "" {
			name += "@" + fr.path
		}
		o := vc.oblige("inv-pres", name, cl.Tags, cond, t, fr.fn, li.head.Instrs[0].Pos(), cl.Src)
		o.Extra = map[string]string{"contract": fmt.Sprintf("%s:%d", cl.File, cl.Line)}
	}
}

func (fr *Frame) edgeOrdinal(li *loopInfo, from *ssa.BasicBlock, which string) int {
	n := 0
	for _, p := range li.head.Preds {
		isBack := li.head.Dominates(p)
		if (which == "pres") == isBack {
			n++
			if p == from {
				return n
			}
		}
	}
	return n
}

func (vc *VC) specError(fn *ssa.Function, cl *Clause, err error) {
	name := fmt.Sprintf("%s/spec-error/%s:%d", fnName(fn), cl.File, cl.Line)
	o := vc.oblige("spec-error", name, cl.Tags, "true", "false", fn, token.NoPos, cl.Src)
	o.Extra = map[string]string{"error": err.Error()}
}

type headOverride struct {
	conds []string
	heaps []Heap
	phis  map[*ssa.Phi][]Val
}

// block translates one basic block. ov, if set, supplies the incoming state of an unrolled loop head.
func (fr *Frame) block(b *ssa.BasicBlock, ov *headOverride) {
	vc := fr.vc
	fn := fr.fn
	fr.curBlock = b
	var reach string
	var heap Heap
	li := fr.loops[b.Index]
	if ov != nil {
		if len(ov.conds) == 0 {
			fr.reach[b.Index] = "false"
			fr.exitHeap[b.Index] = fr.heapIn.clone()
			for _, s := range b.Succs {
				fr.edge[[2]int{b.Index, s.Index}] = "false"
			}
			return
		}
		reach = vc.def(fmt.Sprintf("reach_%s_b%d", fn.Name(), b.Index), "Bool", sOr(ov.conds...))
		heap = vc.mergeHeaps(ov.conds, ov.heaps)
		for _, in := range b.Instrs {
			ph, ok := in.(*ssa.Phi)
			if !ok {
				break
			}
			fr.vals[ph] = vc.mergeVals(ph.Name(), ph.Type(), ov.conds, ov.phis[ph])
		}
		li = nil
	} else if b.Index == 0 {
		reach = fr.entryReach
		heap = fr.heapIn.clone()
	} else {
		var conds []string
		var hs []Heap
		var preds []*ssa.BasicBlock
		for _, p := range b.Preds {
			if b.Dominates(p) && li != nil {
				continue // back edge
			}
			c, ok := fr.edge[[2]int{p.Index, b.Index}]
			if !ok {
				continue // predecessor not reachable in forward order (e.g. from recover block)
			}
			conds = append(conds, c)
			hs = append(hs, fr.exitHeap[p.Index])
			preds = append(preds, p)
		}
		if len(conds) == 0 {
			fr.reach[b.Index] = "false"
			fr.exitHeap[b.Index] = fr.heapIn.clone()
			return
		}
		reach = vc.def(fmt.Sprintf("reach_%s_b%d", fn.Name(), b.Index), "Bool", sOr(conds...))
		if li != nil {
			// loop entry: check invariants on entry edges
			for i, p := range preds {
				fr.checkInvariant(li, p, conds[i], hs[i], "entry")
				fr.checkLoopEntry(li, p, conds[i], hs[i])
			}
		}
		heap = vc.mergeHeaps(conds, hs)
		// phis
		for _, in := range b.Instrs {
			ph, ok := in.(*ssa.Phi)
			if !ok {
				break
			}
			if li != nil {
				continue
			}
			var vs []Val
			for _, p := range preds {
				idx := predIndex(b, p)
				vs = append(vs, fr.val(ph.Edges[idx]))
			}
			fr.vals[ph] = vc.mergeVals(ph.Name(), ph.Type(), conds, vs)
		}
	}
	fr.curReach = reach
	fr.reach[b.Index] = reach
	fr.heap = heap
	vc.curFrame = fr
	if fr.isTop {
		vc.curTopBlock = b.Index
	}
	if li != nil {
		fr.enterLoop(li)
		// the state an iteration starts from (after the havoc of the loop's modset and the assumed invariants):
		// athead(e) in `loop#N backedge` clauses
		if fr.headHeap == nil {
			fr.headHeap = map[int]Heap{}
		}
		fr.headHeap[li.ordinal] = fr.heap.clone()
	}
	fr.panicked = false
	for _, in := range b.Instrs {
		if _, ok := in.(*ssa.Phi); ok {
			continue
		}
		fr.curInstr = in
		fr.instr(in)
		if fr.panicked {
			break
		}
	}
	fr.curInstr = nil
	fr.exitHeap[b.Index] = fr.heap
	if fr.panicked {
		for _, s := range b.Succs {
			fr.edge[[2]int{b.Index, s.Index}] = "false"
		}
	}
	// back edges leaving this block (only for loops cut by invariants)
	for _, s := range b.Succs {
		if s.Dominates(b) {
			if l2 := fr.loops[s.Index]; l2 != nil && !fr.unrolling[s.Index] {
				c := fr.edge[[2]int{b.Index, s.Index}]
				fr.checkInvariant(l2, b, c, fr.heap, "pres")
				fr.checkBackedge(l2, b, c, fr.heap)
			}
		}
	}
}

// constant trip count of a simple counting loop, or the contract's unroll#n directive
func (fr *Frame) unrollCount(li *loopInfo) int {
	if fr.contract != nil {
		if k, ok := fr.contract.Unroll[li.ordinal]; ok {
			return k
		}
		if len(fr.contract.LoopInv[li.ordinal]) > 0 {
			return 0
		}
	}
	h := li.head
	// find: phi i with constant entry value, latch value i+1, and a comparison i < N (or i <= N) with constant N guarding the body
	for _, in := range h.Instrs {
		ph, ok := in.(*ssa.Phi)
		if !ok {
			break
		}
		var start *big.Int
		okShape := true
		for i, e := range ph.Edges {
			p := h.Preds[i]
			if h.Dominates(p) {
				bo, ok := e.(*ssa.BinOp)
				if !ok || bo.Op != token.ADD || bo.X != ssa.Value(ph) {
					okShape = false
					break
				}
				c, ok := bo.Y.(*ssa.Const)
				if !ok || c.Value == nil || c.Value.ExactString() != "1" {
					okShape = false
					break
				}
			} else {
				c, ok := e.(*ssa.Const)
				if !ok || c.Value == nil {
					okShape = false
					break
				}
				v, ok2 := new(big.Int).SetString(c.Value.ExactString(), 10)
				if !ok2 {
					okShape = false
					break
				}
				start = v
			}
		}
		if !okShape || start == nil {
			continue
		}
		// the comparison: either on phi directly (for i < N) or on phi+1 (range loops)
		for _, ref := range *ph.Referrers() {
			var cmp *ssa.BinOp
			off := int64(0)
			if bo, ok := ref.(*ssa.BinOp); ok {
				if bo.Op == token.LSS || bo.Op == token.LEQ {
					cmp = bo
				} else if bo.Op == token.ADD && bo.X == ssa.Value(ph) {
					for _, r2 := range *bo.Referrers() {
						if b2, ok := r2.(*ssa.BinOp); ok && (b2.Op == token.LSS || b2.Op == token.LEQ) && b2.X == ssa.Value(bo) {
							cmp = b2
							off = 1
						}
					}
				}
			}
			if cmp == nil || !li.body[cmp.Block().Index] {
				continue
			}
			c, ok := cmp.Y.(*ssa.Const)
			if !ok || c.Value == nil {
				continue
			}
			n, ok2 := new(big.Int).SetString(c.Value.ExactString(), 10)
			if !ok2 {
				continue
			}
			trip := new(big.Int).Sub(n, start)
			if cmp.Op == token.LEQ {
				trip.Add(trip, big.NewInt(1))
			}
			trip.Sub(trip, big.NewInt(off))
			if trip.Sign() >= 0 && trip.Cmp(big.NewInt(130)) <= 0 {
				// the body must be small
				size := 0
				for _, bb := range fr.fn.Blocks {
					if li.body[bb.Index] {
						size += len(bb.Instrs)
					}
				}
				if size*int(trip.Int64()+1) <= 6000 {
					return int(trip.Int64()) + 1
				}
			}
		}
	}
	return 0
}

type exitRec struct {
	from, to int
	cond     string
	heap     Heap
	snap     map[ssa.Value]Val
}

func (fr *Frame) unrollLoop(li *loopInfo, order []*ssa.BasicBlock, K int, done map[int]bool) {
	vc := fr.vc
	h := li.head
	if fr.unrolling == nil {
		fr.unrolling = map[int]bool{}
	}
	fr.unrolling[h.Index] = true
	var body []*ssa.BasicBlock
	for _, b := range order {
		if li.body[b.Index] {
			body = append(body, b)
		}
	}
	// live-out values
	var liveOut []ssa.Value
	for _, b := range body {
		for _, in := range b.Instrs {
			v, ok := in.(ssa.Value)
			if !ok || v.Referrers() == nil {
				continue
			}
			for _, r := range *v.Referrers() {
				if r.Block() != nil && !li.body[r.Block().Index] {
					liveOut = append(liveOut, v)
					break
				}
			}
		}
	}
	// entry state
	ov := &headOverride{phis: map[*ssa.Phi][]Val{}}
	for _, p := range h.Preds {
		if h.Dominates(p) {
			continue
		}
		c, ok := fr.edge[[2]int{p.Index, h.Index}]
		if !ok {
			continue
		}
		ov.conds = append(ov.conds, c)
		ov.heaps = append(ov.heaps, fr.exitHeap[p.Index])
		idx := predIndex(h, p)
		for _, in := range h.Instrs {
			ph, ok := in.(*ssa.Phi)
			if !ok {
				break
			}
			ov.phis[ph] = append(ov.phis[ph], fr.val(ph.Edges[idx]))
		}
	}
	var exits []exitRec
	for k := 0; k <= K; k++ {
		if k == K {
			// unwinding assertion: no further iteration is possible
			name := fmt.Sprintf("%s/unwind/loop#%d", fnName(fr.fn), li.ordinal)
			if fr.path != "" {
				name += "@" + fr.path
			}
			vc.oblige("unwind", name, nil, sOr(ov.conds...), "false", fr.fn, h.Instrs[0].Pos(), fmt.Sprintf("loop fully unrolled after %d iterations", K))
			break
		}
		for i, b := range body {
			if i == 0 {
				fr.block(b, ov)
				continue
			}
			if inner := fr.loops[b.Index]; inner != nil && b != h {
				if kk := fr.unrollCount(inner); kk > 0 {
					innerDone := map[int]bool{}
					fr.unrollLoop(inner, order, kk, innerDone)
					for bi := range innerDone {
						done[bi] = true
					}
					continue
				}
			}
			if done[b.Index] && fr.loops[b.Index] == nil {
				// part of an inner unrolled loop already processed in this iteration
				inInner := false
				for hi, l2 := range fr.loops {
					if hi != h.Index && l2.body[b.Index] && li.body[hi] && fr.unrolling[hi] {
						inInner = true
					}
				}
				if inInner {
					continue
				}
			}
			fr.block(b, nil)
		}
		// exits and back edges of this iteration
		next := &headOverride{phis: map[*ssa.Phi][]Val{}}
		for _, b := range body {
			for _, s := range b.Succs {
				c, ok := fr.edge[[2]int{b.Index, s.Index}]
				if !ok {
					continue
				}
				if s == h {
					next.conds = append(next.conds, c)
					next.heaps = append(next.heaps, fr.exitHeap[b.Index])
					idx := predIndex(h, b)
					for _, in := range h.Instrs {
						ph, ok := in.(*ssa.Phi)
						if !ok {
							break
						}
						next.phis[ph] = append(next.phis[ph], fr.val(ph.Edges[idx]))
					}
				} else if !li.body[s.Index] {
					snap := map[ssa.Value]Val{}
					for _, v := range liveOut {
						if x, ok := fr.vals[v]; ok {
							snap[v] = x
						}
					}
					exits = append(exits, exitRec{b.Index, s.Index, c, fr.exitHeap[b.Index], snap})
				}
			}
		}
		// inner unrolled loops are re-unrolled in each outer iteration
		for hi, l2 := range fr.loops {
			if hi != h.Index && li.body[hi] {
				delete(fr.unrolling, hi)
				_ = l2
			}
		}
		ov = next
	}
	// merge the exits
	byFrom := map[int][]exitRec{}
	for _, e := range exits {
		byFrom[e.from] = append(byFrom[e.from], e)
	}
	for from, es := range byFrom {
		var conds []string
		var heaps []Heap
		byTo := map[int][]string{}
		for _, e := range es {
			conds = append(conds, e.cond)
			heaps = append(heaps, e.heap)
			byTo[e.to] = append(byTo[e.to], e.cond)
		}
		fr.exitHeap[from] = vc.mergeHeaps(conds, heaps)
		for to, cs := range byTo {
			fr.edge[[2]int{from, to}] = vc.def("loopexit", "Bool", sOr(cs...))
		}
	}
	if len(exits) > 0 {
		for _, v := range liveOut {
			var conds []string
			var vs []Val
			for _, e := range exits {
				if x, ok := e.snap[v]; ok {
					conds = append(conds, e.cond)
					vs = append(vs, x)
				}
			}
			if len(vs) > 0 {
				fr.vals[v] = vc.mergeVals(v.Name(), v.Type(), conds, vs)
			}
		}
	}
	for _, b := range body {
		done[b.Index] = true
		if len(byFrom[b.Index]) == 0 {
			for _, s := range b.Succs {
				if !li.body[s.Index] {
					if _, ok := fr.edge[[2]int{b.Index, s.Index}]; ok && len(exits) == 0 {
						fr.edge[[2]int{b.Index, s.Index}] = "false"
					}
				}
			}
		}
	}
}

func wrapBig(v *big.Int, k intKind) *big.Int {
	m := pow2(k.bits)
	r := new(big.Int).Mod(v, m)
	if k.signed && r.Cmp(pow2(k.bits-1)) >= 0 {
		r.Sub(r, m)
	}
	return r
}

func foldConst(op token.Token, x, y *big.Int, k intKind) (*big.Int, bool) {
	switch op {
	case token.ADD:
		return wrapBig(new(big.Int).Add(x, y), k), true
	case token.SUB:
		return wrapBig(new(big.Int).Sub(x, y), k), true
	case token.MUL:
		return wrapBig(new(big.Int).Mul(x, y), k), true
	case token.SHL:
		if y.IsInt64() && y.Int64() >= 0 && y.Int64() < 256 {
			return wrapBig(new(big.Int).Lsh(x, uint(y.Int64())), k), true
		}
	case token.SHR:
		if y.IsInt64() && y.Int64() >= 0 && y.Int64() < 256 {
			return new(big.Int).Rsh(x, uint(y.Int64())), true
		}
	case token.AND:
		if x.Sign() >= 0 && y.Sign() >= 0 {
			return new(big.Int).And(x, y), true
		}
	case token.OR:
		if x.Sign() >= 0 && y.Sign() >= 0 {
			return new(big.Int).Or(x, y), true
		}
	}
	return nil, false
}

// digits returns base-256 digits of an unsigned value of the given width, introducing them if necessary
func (vc *VC) digits(x Val, bits int) []string {
	n := bits / 8
	if x.Dig != nil {
		d := append([]string{}, x.Dig...)
		for len(d) < n {
			d = append(d, "0")
		}
		return d[:n]
	}
	if c, ok := constOf(x); ok && c.Sign() >= 0 {
		var d []string
		t := new(big.Int).Set(c)
		for i := 0; i < n; i++ {
			d = append(d, new(big.Int).And(t, big.NewInt(255)).String())
			t.Rsh(t, 8)
		}
		return d
	}
	if n == 1 {
		return []string{x.T}
	}
	canon := x.T
	if d, ok := vc.defIdx[x.T]; ok && d.Body != "" {
		canon = d.Body
	}
	key := fmt.Sprintf("%s/%d", canon, n)
	if d, ok := vc.digCache[key]; ok {
		return d
	}
	var d []string
	var parts []string
	for i := 0; i < n; i++ {
		c := vc.free("dig", "Int")
		vc.setRng(c, sAnd(sApp("<=", "0", c), sApp("<=", c, "255")))
		d = append(d, c)
		if i == 0 {
			parts = append(parts, c)
		} else {
			parts = append(parts, sApp("*", c, pow2s(8*i)))
		}
	}
	vc.assume("true", sEq(x.T, sApp("+", parts...)), "base-256 digits")
	if vc.digCache == nil {
		vc.digCache = map[string][]string{}
	}
	vc.digCache[key] = d
	return d
}

func digSum(d []string) string {
	var parts []string
	for i, c := range d {
		if c == "0" {
			continue
		}
		if i == 0 {
			parts = append(parts, c)
		} else {
			parts = append(parts, sApp("*", c, pow2s(8*i)))
		}
	}
	if len(parts) == 0 {
		return "0"
	}
	if len(parts) == 1 {
		return parts[0]
	}
	return sApp("+", parts...)
}

func mergeDigits(a, b []string) []string {
	if a == nil || b == nil {
		return nil
	}
	n := len(a)
	if len(b) > n {
		n = len(b)
	}
	out := make([]string, n)
	for i := 0; i < n; i++ {
		x, y := "0", "0"
		if i < len(a) {
			x = a[i]
		}
		if i < len(b) {
			y = b[i]
		}
		switch {
		case x == "0":
			out[i] = y
		case y == "0":
			out[i] = x
		default:
			return nil
		}
	}
	return out
}

// names (short and Type__Method) of every callee that may execute when block b runs, through inlinable callees
func (e *Engine) calledNames(b *ssa.BasicBlock, out map[string]bool, seen map[*ssa.Function]bool, depth int) {
	for _, in := range b.Instrs {
		var cc *ssa.CallCommon
		switch x := in.(type) {
		case *ssa.Call:
			cc = x.Common()
		case *ssa.Defer:
			cc = x.Common()
		case *ssa.Go:
			if f, ok := x.Call.Value.(*ssa.Function); ok {
				n := fnName(f)
				out[calleeShort(n)] = true
				out[strings.ReplaceAll(calleeQual(n), ".", "__")] = true
			}
		case *ssa.Send:
			out["chansend"] = true
		case *ssa.UnOp:
			if x.Op == token.ARROW {
				out["chanrecv"] = true
			}
		}
		if cc == nil {
			continue
		}
		if cc.IsInvoke() {
			out[cc.Method.Name()] = true
			key := "(" + normName(types.TypeString(cc.Value.Type(), nil)) + ")." + cc.Method.Name()
			out[strings.ReplaceAll(calleeQual(key), ".", "__")] = true
			continue
		}
		var f *ssa.Function
		switch v := cc.Value.(type) {
		case *ssa.Function:
			f = v
		case *ssa.MakeClosure:
			f, _ = v.Fn.(*ssa.Function)
		case *ssa.Builtin:
			continue
		default:
			out["*"] = true
			continue
		}
		if f == nil {
			continue
		}
		n := fnName(f)
		out[calleeShort(n)] = true
		out[strings.ReplaceAll(calleeQual(n), ".", "__")] = true
		c := e.contracts[n]
		modular := c != nil && !c.Inline && (len(c.Requires) > 0 || len(c.Ensures) > 0 || len(c.Assumes) > 0 || c.ModGiven || c.External || c.Trusted != "")
		if !modular && f.Blocks != nil && isInRepo(f) && !seen[f] && depth < 8 {
			seen[f] = true
			for _, bb := range f.Blocks {
				e.calledNames(bb, out, seen, depth+1)
			}
		}
	}
}

// decides conjunctions of comparisons between integer literals
func constTrue(cond string) bool {
	c := strings.TrimSpace(cond)
	if c == "true" {
		return true
	}
	if strings.HasPrefix(c, "(and ") && strings.HasSuffix(c, ")") {
		inner := c[5 : len(c)-1]
		// split top-level s-expressions
		depth, start := 0, 0
		for i := 0; i < len(inner); i++ {
			switch inner[i] {
			case '(':
				if depth == 0 {
					start = i
				}
				depth++
			case ')':
				depth--
				if depth == 0 {
					if !constTrue(inner[start : i+1]) {
						return false
					}
				}
			}
		}
		return depth == 0
	}
	for _, op := range []string{"<=", "<"} {
		p := "(" + op + " "
		if strings.HasPrefix(c, p) && strings.HasSuffix(c, ")") {
			f := strings.Fields(c[len(p) : len(c)-1])
			if len(f) != 2 {
				return false
			}
			a, ok1 := new(big.Int).SetString(f[0], 10)
			b, ok2 := new(big.Int).SetString(f[1], 10)
			if !ok1 || !ok2 {
				return false
			}
			if op == "<=" {
				return a.Cmp(b) <= 0
			}
			return a.Cmp(b) < 0
		}
	}
	return false
}
