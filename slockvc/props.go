package main

// Per-property residual assumptions, repeated in every evidence file (DESIGN section 4, "Residual"/"Unchecked").

var propResidual = map[string][]string{
	"C01": {"key table (GetOrNewLockManager/RemoveLockManager) is linearizable: at most one live manager per key (lock-free code, not decidable by contracts)", "PriorityMutex is a mutex; critical sections of one shard do not touch state of another shard"},
	"C12": {"message transport, timeouts and process restarts of a real cluster are outside; handlers are verified one call at a time under voter.glock"},
}

func propAssumptions(prop string) []string {
	base := []string{
		"partial correctness only: termination and liveness are not proved",
		"int/uint are 64 bit (amd64/arm64)",
		"data races outside the monitor discipline are not modelled: each function is verified as a sequential section",
	}
	return append(base, propResidual[prop]...)
}
