package main

// Counterexample replay: the solver's model is turned into an in-package Go test that builds the
// entry state, calls the real function (scratch copy of the current tree) and evaluates the violated clause.

import (
	"bufio"
	"bytes"
	"fmt"
	"go/ast"
	"go/token"
	"go/types"
	"io"
	"os"
	"os/exec"
	"path/filepath"
	"strings"
	"time"

	"golang.org/x/tools/go/ssa"
)

// ---------------------------------------------------------------- interactive model oracle

type ModelOracle struct {
	cmd   *exec.Cmd
	in    io.WriteCloser
	out   *bufio.Reader
	evals int
}

func startOracle(script string) (*ModelOracle, string, error) {
	cmd := exec.Command("z3-new", "-in", "-t:20000")
	in, _ := cmd.StdinPipe()
	outp, _ := cmd.StdoutPipe()
	cmd.Stderr = io.Discard
	if err := cmd.Start(); err != nil {
		return nil, "", err
	}
	mo := &ModelOracle{cmd: cmd, in: in, out: bufio.NewReader(outp)}
	// strip get-model
	script = strings.Replace(script, "(get-model)\n", "", 1)
	io.WriteString(in, script)
	line, err := mo.out.ReadString('\n')
	if err != nil {
		mo.Close()
		return nil, "", err
	}
	return mo, strings.TrimSpace(line), nil
}

func (mo *ModelOracle) Close() {
	mo.in.Close()
	done := make(chan struct{})
	go func() { mo.cmd.Wait(); close(done) }()
	select {
	case <-done:
	case <-time.After(2 * time.Second):
		mo.cmd.Process.Kill()
	}
}

func (mo *ModelOracle) readSexpr() (string, error) {
	var b bytes.Buffer
	depth := 0
	started := false
	for {
		c, err := mo.out.ReadByte()
		if err != nil {
			return b.String(), err
		}
		if !started {
			if c == ' ' || c == '\n' || c == '\r' || c == '\t' {
				continue
			}
			started = true
		}
		b.WriteByte(c)
		if c == '(' {
			depth++
		} else if c == ')' {
			depth--
			if depth == 0 {
				return b.String(), nil
			}
		} else if depth == 0 && c == '\n' {
			return strings.TrimSpace(b.String()), nil
		}
	}
}

// Eval returns the model value of a term as SMT text.
func (mo *ModelOracle) Eval(term string) (string, error) {
	mo.evals++
	if mo.evals > 50000 {
		return "", fmt.Errorf("too many model evaluations")
	}
	fmt.Fprintf(mo.in, "(get-value (%s))\n", term)
	s, err := mo.readSexpr()
	if err != nil {
		return "", err
	}
	if strings.HasPrefix(s, "(error") {
		return "", fmt.Errorf("solver: %s", s)
	}
	toks := sexprTokens(s)
	// ( ( term value ) )
	if len(toks) < 5 {
		return "", fmt.Errorf("unexpected get-value reply %q", s)
	}
	i := 2
	i = skipSexpr(toks, i)
	j := skipSexpr(toks, i)
	return strings.Join(toks[i:j], " "), nil
}

func (mo *ModelOracle) Int(term string) (int64, error) {
	v, err := mo.Eval(term)
	if err != nil {
		return 0, err
	}
	n, ok := modelInt(v)
	if !ok {
		return 0, fmt.Errorf("not an int64: %s", v)
	}
	return n, nil
}

// ---------------------------------------------------------------- heap builder

type builder struct {
	mo      *ModelOracle
	vc      *VC
	need    map[string]bool
	pkg     *types.Package
	imports map[string]string
	stmts   []string
	objs    map[string]string // "T@ref" -> go variable
	arrs    map[string]arrInfo
	n       int
	notes   []string
}

type arrInfo struct {
	name string
	size int64
}

func (b *builder) qual(p *types.Package) string {
	if p == b.pkg {
		return ""
	}
	b.imports[p.Path()] = p.Name()
	return p.Name()
}

func (b *builder) typeStr(t types.Type) string {
	return types.TypeString(t, b.qual)
}

func (b *builder) emit(f string, a ...interface{}) {
	b.stmts = append(b.stmts, fmt.Sprintf(f, a...))
}

func (b *builder) settable(st *types.Struct, i int, owner types.Type) bool {
	f := st.Field(i)
	if f.Exported() {
		return true
	}
	return f.Pkg() == b.pkg
}

// entry-heap term of a map
func (b *builder) hmap(name string) (string, bool) {
	n := name + "@0"
	if b.need[n] {
		return n, true
	}
	return "", false
}

func (b *builder) value(t types.Type, term string) (string, error) {
	switch u := t.Underlying().(type) {
	case *types.Basic:
		switch {
		case u.Info()&types.IsBoolean != 0:
			v, err := b.mo.Eval(term)
			if err != nil {
				return "", err
			}
			return fmt.Sprintf("%s(%s)", b.typeStr(t), v), nil
		case u.Info()&types.IsInteger != 0:
			n, err := b.mo.Int(term)
			if err != nil {
				// large uint64
				v, e2 := b.mo.Eval(term)
				if e2 != nil {
					return "", err
				}
				return fmt.Sprintf("%s(%s)", b.typeStr(t), strings.ReplaceAll(v, " ", "")), nil
			}
			return fmt.Sprintf("%s(%d)", b.typeStr(t), n), nil
		case u.Info()&types.IsString != 0:
			l, err := b.mo.Int(sApp("slen", term))
			if err != nil {
				return "", err
			}
			if l > 4096 {
				return "", fmt.Errorf("string too long for replay (%d)", l)
			}
			var bs []string
			for i := int64(0); i < l; i++ {
				c, err := b.mo.Int(sApp("sat", term, sInt(i)))
				if err != nil {
					return "", err
				}
				bs = append(bs, fmt.Sprintf("%d", c&255))
			}
			return fmt.Sprintf("%s([]byte{%s})", b.typeStr(t), strings.Join(bs, ",")), nil
		case u.Info()&types.IsFloat != 0:
			return fmt.Sprintf("%s(0)", b.typeStr(t)), nil
		case u.Kind() == types.UnsafePointer:
			return "nil", nil
		}
	case *types.Pointer:
		return b.pointer(t, u, term)
	case *types.Slice:
		return b.slice(t, u, term)
	case *types.Array:
		if u.Len() > 4096 {
			return "", fmt.Errorf("array too large for replay")
		}
		var es []string
		for i := int64(0); i < u.Len(); i++ {
			e, err := b.value(u.Elem(), sApp("select", term, sInt(i)))
			if err != nil {
				return "", err
			}
			es = append(es, e)
		}
		return fmt.Sprintf("%s{%s}", b.typeStr(t), strings.Join(es, ", ")), nil
	case *types.Struct:
		b.n++
		v := fmt.Sprintf("sv%d", b.n)
		b.emit("var %s %s", v, b.typeStr(t))
		if err := b.fillStruct(v, t, func(i int) string { return sApp(b.vc.structInfoOf(t).fields[i], term) }); err != nil {
			return "", err
		}
		return v, nil
	case *types.Interface:
		tag, err := b.mo.Int(sApp("i-tag", term))
		if err != nil {
			return "", err
		}
		if tag == 0 {
			return "nil", nil
		}
		// find the concrete type by id
		for k, id := range b.vc.e.typeIds {
			if int64(id) == tag {
				return "", fmt.Errorf("interface value of dynamic type %s cannot be rebuilt", k)
			}
		}
		return "", fmt.Errorf("interface value with unknown dynamic type cannot be rebuilt")
	case *types.Map:
		r, err := b.mo.Int(term)
		if err != nil {
			return "", err
		}
		if r == 0 {
			return "nil", nil
		}
		b.notes = append(b.notes, "map contents not reconstructed (empty map used)")
		return fmt.Sprintf("make(%s)", b.typeStr(t)), nil
	case *types.Chan:
		r, err := b.mo.Int(term)
		if err != nil {
			return "", err
		}
		if r == 0 {
			return "nil", nil
		}
		return fmt.Sprintf("make(%s, 64)", b.typeStr(t)), nil
	case *types.Signature:
		r, err := b.mo.Int(term)
		if err != nil {
			return "", err
		}
		if r == 0 {
			return "nil", nil
		}
		return "", fmt.Errorf("function value cannot be rebuilt")
	}
	return "", fmt.Errorf("type %s cannot be rebuilt", t)
}

func (b *builder) fillStruct(lhs string, t types.Type, fieldTerm func(i int) string) error {
	st := t.Underlying().(*types.Struct)
	for i := 0; i < st.NumFields(); i++ {
		if !b.settable(st, i, t) {
			continue
		}
		ft := st.Field(i).Type()
		term := fieldTerm(i)
		if term == "" {
			continue
		}
		if _, isStruct := ft.Underlying().(*types.Struct); isStruct {
			si := b.vc.structInfoOf(ft)
			if err := b.fillStruct(lhs+"."+st.Field(i).Name(), ft, func(j int) string { return sApp(si.fields[j], term) }); err != nil {
				return err
			}
			continue
		}
		v, err := b.value(ft, term)
		if err != nil {
			return err
		}
		b.emit("%s.%s = %s", lhs, st.Field(i).Name(), v)
	}
	return nil
}

func (b *builder) pointer(t types.Type, u *types.Pointer, term string) (string, error) {
	r, err := b.mo.Int(term)
	if err != nil {
		return "", err
	}
	if r == 0 {
		return "nil", nil
	}
	el := u.Elem()
	key := fmt.Sprintf("%s@%d", b.typeStr(el), r)
	if v, ok := b.objs[key]; ok {
		return v, nil
	}
	if len(b.objs) > 300 {
		return "", fmt.Errorf("too many objects in the model")
	}
	b.n++
	v := fmt.Sprintf("o%d", b.n)
	b.objs[key] = v
	b.emit("%s := new(%s)", v, b.typeStr(el))
	ref := sInt(r)
	switch eu := el.Underlying().(type) {
	case *types.Struct:
		err := b.fillStruct(v, el, func(i int) string {
			m, ok := b.hmap(fieldMapName(el, i))
			if !ok {
				return ""
			}
			return sApp("select", m, ref)
		})
		if err != nil {
			return "", err
		}
	case *types.Array:
		if m, ok := b.hmap(elemMapName(eu.Elem())); ok && eu.Len() <= 4096 {
			for i := int64(0); i < eu.Len(); i++ {
				e, err := b.value(eu.Elem(), sApp("select", sApp("select", m, ref), sInt(i)))
				if err != nil {
					return "", err
				}
				b.emit("%s[%d] = %s", v, i, e)
			}
		}
	default:
		if m, ok := b.hmap(cellMapName(el)); ok {
			e, err := b.value(el, sApp("select", m, ref))
			if err != nil {
				return "", err
			}
			b.emit("*%s = %s", v, e)
		}
	}
	return v, nil
}

func (b *builder) slice(t types.Type, u *types.Slice, term string) (string, error) {
	arr, err := b.mo.Int(sApp("s-arr", term))
	if err != nil {
		return "", err
	}
	if arr == 0 {
		return "nil", nil
	}
	off, _ := b.mo.Int(sApp("s-off", term))
	ln, _ := b.mo.Int(sApp("s-len", term))
	cp, _ := b.mo.Int(sApp("s-cap", term))
	if off+cp > 1<<22 || ln > 1<<16 {
		// only len matters for behaviour in almost all cases: clamp the capacity
		if ln > 1<<16 {
			return "", fmt.Errorf("slice too large for replay (len %d)", ln)
		}
		cp = ln
		if off > 1<<20 {
			return "", fmt.Errorf("slice offset too large for replay")
		}
		b.notes = append(b.notes, "capacity clamped to length")
	}
	key := fmt.Sprintf("%s@%d", b.typeStr(u.Elem()), arr)
	ai, ok := b.arrs[key]
	if !ok {
		b.n++
		ai = arrInfo{name: fmt.Sprintf("b%d", b.n), size: off + cp}
		b.arrs[key] = ai
		b.emit("%s := make([]%s, %d)", ai.name, b.typeStr(u.Elem()), ai.size)
		if m, ok := b.hmap(elemMapName(u.Elem())); ok {
			for i := int64(0); i < ln; i++ {
				e, err := b.value(u.Elem(), sApp("select", sApp("select", m, sInt(arr)), sInt(off+i)))
				if err != nil {
					return "", err
				}
				b.emit("%s[%d] = %s", ai.name, off+i, e)
			}
		}
	} else if off+cp > ai.size {
		return "", fmt.Errorf("two slices over one array with different extents")
	}
	return fmt.Sprintf("%s[%d:%d:%d]", ai.name, off, off+ln, off+cp), nil
}

// ---------------------------------------------------------------- spec -> Go

type goc struct {
	vc     *VC
	env    *Env
	olds   []string
	nOld   int
	bound  map[string]bool
	result []string
	pkg    *types.Package
	b      *builder
}

func substExpr(e ast.Expr, sub map[string]ast.Expr) ast.Expr {
	switch x := e.(type) {
	case *ast.Ident:
		if r, ok := sub[x.Name]; ok {
			return &ast.ParenExpr{X: r}
		}
		return x
	case *ast.ParenExpr:
		return &ast.ParenExpr{X: substExpr(x.X, sub)}
	case *ast.SelectorExpr:
		return &ast.SelectorExpr{X: substExpr(x.X, sub), Sel: x.Sel}
	case *ast.IndexExpr:
		return &ast.IndexExpr{X: substExpr(x.X, sub), Index: substExpr(x.Index, sub)}
	case *ast.StarExpr:
		return &ast.StarExpr{X: substExpr(x.X, sub)}
	case *ast.UnaryExpr:
		return &ast.UnaryExpr{Op: x.Op, X: substExpr(x.X, sub)}
	case *ast.BinaryExpr:
		return &ast.BinaryExpr{X: substExpr(x.X, sub), Op: x.Op, Y: substExpr(x.Y, sub)}
	case *ast.CallExpr:
		n := &ast.CallExpr{Fun: x.Fun}
		for i, a := range x.Args {
			if id, ok := x.Fun.(*ast.Ident); ok && (id.Name == "forall" || id.Name == "exists") && i == 0 {
				n.Args = append(n.Args, a)
				continue
			}
			n.Args = append(n.Args, substExpr(a, sub))
		}
		return n
	}
	return e
}

func (g *goc) isIntExpr(e ast.Expr) bool {
	v, err := g.env.eval(e)
	if err != nil {
		return false
	}
	if v.Math {
		return true
	}
	if v.Typ == nil {
		return false
	}
	_, ok := intInfo(v.Typ)
	return ok
}

func (g *goc) compile(e ast.Expr) (string, error) {
	switch x := e.(type) {
	case *ast.ParenExpr:
		return g.compile(x.X)
	case *ast.Ident:
		switch x.Name {
		case "true", "false", "nil":
			return x.Name, nil
		case "result":
			if len(g.result) == 1 {
				if g.isIntExpr(x) {
					return "I(" + g.result[0] + ")", nil
				}
				return g.result[0], nil
			}
			return "", fmt.Errorf("result of a multi-value function")
		}
		if strings.HasPrefix(x.Name, "result") && len(x.Name) > 6 {
			idx := int(x.Name[6] - '0')
			if idx >= 0 && idx < len(g.result) {
				if g.isIntExpr(x) {
					return "I(" + g.result[idx] + ")", nil
				}
				return g.result[idx], nil
			}
		}
		if g.bound[x.Name] {
			return x.Name, nil
		}
		if _, ok := g.env.names[x.Name]; ok {
			if g.isIntExpr(x) {
				return "I(" + x.Name + ")", nil
			}
			return x.Name, nil
		}
		// package-level constant
		if g.isIntExpr(x) {
			return "I(" + x.Name + ")", nil
		}
		return x.Name, nil
	case *ast.BasicLit:
		if x.Kind == token.INT {
			return fmt.Sprintf("B(%q)", x.Value), nil
		}
		return x.Value, nil
	case *ast.SelectorExpr:
		if id, ok := x.X.(*ast.Ident); ok {
			if _, bound := g.env.names[id.Name]; !bound {
				if p := g.env.findPkg(id.Name); p != nil {
					g.b.imports[p.Path()] = p.Name()
					s := id.Name + "." + x.Sel.Name
					if g.isIntExpr(x) {
						return "I(" + s + ")", nil
					}
					return s, nil
				}
			}
		}
		base, err := g.compileRaw(x.X)
		if err != nil {
			return "", err
		}
		s := base + "." + x.Sel.Name
		if g.isIntExpr(x) {
			return "I(" + s + ")", nil
		}
		return s, nil
	case *ast.IndexExpr:
		base, err := g.compileRaw(x.X)
		if err != nil {
			return "", err
		}
		idx, err := g.compile(x.Index)
		if err != nil {
			return "", err
		}
		s := fmt.Sprintf("%s[ix(%s)]", base, idx)
		if g.isIntExpr(x) {
			return "I(" + s + ")", nil
		}
		return s, nil
	case *ast.StarExpr:
		base, err := g.compileRaw(x.X)
		if err != nil {
			return "", err
		}
		s := "(*" + base + ")"
		if g.isIntExpr(x) {
			return "I(" + s + ")", nil
		}
		return s, nil
	case *ast.UnaryExpr:
		a, err := g.compile(x.X)
		if err != nil {
			return "", err
		}
		switch x.Op {
		case token.NOT:
			return "!(" + a + ")", nil
		case token.SUB:
			return "neg(" + a + ")", nil
		}
		return "", fmt.Errorf("unary %s", x.Op)
	case *ast.BinaryExpr:
		a, err := g.compile(x.X)
		if err != nil {
			return "", err
		}
		bb, err := g.compile(x.Y)
		if err != nil {
			return "", err
		}
		ints := g.isIntExpr(x.X) || g.isIntExpr(x.Y)
		switch x.Op {
		case token.LAND:
			return "(" + a + " && " + bb + ")", nil
		case token.LOR:
			return "(" + a + " || " + bb + ")", nil
		case token.EQL, token.NEQ:
			var s string
			if ints && a != "nil" && bb != "nil" {
				s = "eq(" + a + ", " + bb + ")"
			} else {
				s = "(" + a + " == " + bb + ")"
			}
			if x.Op == token.NEQ {
				s = "!" + s
			}
			return s, nil
		case token.LSS:
			return "lt(" + a + ", " + bb + ")", nil
		case token.LEQ:
			return "le(" + a + ", " + bb + ")", nil
		case token.GTR:
			return "lt(" + bb + ", " + a + ")", nil
		case token.GEQ:
			return "le(" + bb + ", " + a + ")", nil
		case token.ADD:
			return "add(" + a + ", " + bb + ")", nil
		case token.SUB:
			return "sub(" + a + ", " + bb + ")", nil
		case token.MUL:
			return "mul(" + a + ", " + bb + ")", nil
		case token.QUO:
			return "fdiv(" + a + ", " + bb + ")", nil
		case token.REM:
			return "fmod(" + a + ", " + bb + ")", nil
		case token.SHL:
			return "shl(" + a + ", " + bb + ")", nil
		case token.SHR:
			return "shr(" + a + ", " + bb + ")", nil
		case token.AND:
			if !ints {
				return "(" + a + " && " + bb + ")", nil
			}
			return "band(" + a + ", " + bb + ")", nil
		case token.OR:
			if !ints {
				return "(" + a + " || " + bb + ")", nil
			}
			return "bor(" + a + ", " + bb + ")", nil
		}
		return "", fmt.Errorf("operator %s", x.Op)
	case *ast.CallExpr:
		return g.compileCall(x)
	}
	return "", fmt.Errorf("cannot compile %T", e)
}

// compileRaw: like compile but never wraps in I(...) (for bases of selectors / indexing)
func (g *goc) compileRaw(e ast.Expr) (string, error) {
	switch x := e.(type) {
	case *ast.ParenExpr:
		return g.compileRaw(x.X)
	case *ast.Ident:
		if x.Name == "result" && len(g.result) == 1 {
			return g.result[0], nil
		}
		if strings.HasPrefix(x.Name, "result") && len(x.Name) > 6 {
			idx := int(x.Name[6] - '0')
			if idx >= 0 && idx < len(g.result) {
				return g.result[idx], nil
			}
		}
		return x.Name, nil
	case *ast.SelectorExpr:
		if id, ok := x.X.(*ast.Ident); ok {
			if _, bound := g.env.names[id.Name]; !bound {
				if p := g.env.findPkg(id.Name); p != nil {
					g.b.imports[p.Path()] = p.Name()
					return id.Name + "." + x.Sel.Name, nil
				}
			}
		}
		base, err := g.compileRaw(x.X)
		if err != nil {
			return "", err
		}
		return base + "." + x.Sel.Name, nil
	case *ast.IndexExpr:
		base, err := g.compileRaw(x.X)
		if err != nil {
			return "", err
		}
		idx, err := g.compile(x.Index)
		if err != nil {
			return "", err
		}
		return fmt.Sprintf("%s[ix(%s)]", base, idx), nil
	case *ast.StarExpr:
		base, err := g.compileRaw(x.X)
		if err != nil {
			return "", err
		}
		return "(*" + base + ")", nil
	case *ast.CallExpr:
		if id, ok := x.Fun.(*ast.Ident); ok {
			if id.Name == "old" {
				return g.compileCall(x)
			}
			if sf, ok := g.vc.e.specFuncs[id.Name]; ok {
				sub := map[string]ast.Expr{}
				for i, p := range sf.Params {
					sub[p] = x.Args[i]
				}
				return g.compileRaw(substExpr(sf.Body, sub))
			}
		}
	}
	return g.compile(e)
}

func (g *goc) compileCall(x *ast.CallExpr) (string, error) {
	id, ok := x.Fun.(*ast.Ident)
	if !ok {
		return "", fmt.Errorf("call of %s", exprStr(x.Fun))
	}
	args := func() ([]string, error) {
		var out []string
		for _, a := range x.Args {
			s, err := g.compile(a)
			if err != nil {
				return nil, err
			}
			out = append(out, s)
		}
		return out, nil
	}
	switch id.Name {
	case "old":
		for v := range g.bound {
			if mentions(x.Args[0], v) {
				return "", fmt.Errorf("old() over a bound variable")
			}
		}
		isInt := g.isIntExpr(x.Args[0])
		var s string
		var err error
		if isInt {
			s, err = g.compile(x.Args[0])
		} else {
			s, err = g.compileRaw(x.Args[0])
		}
		if err != nil {
			return "", err
		}
		g.nOld++
		n := fmt.Sprintf("old%d", g.nOld)
		g.olds = append(g.olds, fmt.Sprintf("%s := %s", n, s))
		return n, nil
	case "implies":
		a, err := args()
		if err != nil {
			return "", err
		}
		return "(!(" + a[0] + ") || (" + a[1] + "))", nil
	case "iff":
		a, err := args()
		if err != nil {
			return "", err
		}
		return "((" + a[0] + ") == (" + a[1] + "))", nil
	case "ite":
		a, err := args()
		if err != nil {
			return "", err
		}
		if g.isIntExpr(x.Args[1]) || g.isIntExpr(x.Args[2]) {
			return fmt.Sprintf("func() *big.Int { if %s { return %s }; return %s }()", a[0], a[1], a[2]), nil
		}
		return fmt.Sprintf("func() bool { if %s { return %s }; return %s }()", a[0], a[1], a[2]), nil
	case "forall", "exists":
		v, ok := x.Args[0].(*ast.Ident)
		if !ok || len(x.Args) != 4 {
			return "", fmt.Errorf("unbounded quantifier cannot be replayed")
		}
		lo, err := g.compile(x.Args[1])
		if err != nil {
			return "", err
		}
		hi, err := g.compile(x.Args[2])
		if err != nil {
			return "", err
		}
		g.bound[v.Name] = true
		save := g.env
		g.env = g.env.sub()
		g.env.names[v.Name] = mathVal("0")
		body, err := g.compile(x.Args[3])
		g.env = save
		delete(g.bound, v.Name)
		if err != nil {
			return "", err
		}
		return fmt.Sprintf("%s(%s, %s, func(%s *big.Int) bool { return %s })", id.Name, lo, hi, v.Name, body), nil
	case "len", "cap":
		s, err := g.compileRaw(x.Args[0])
		if err != nil {
			return "", err
		}
		return "I(" + id.Name + "(" + s + "))", nil
	case "min", "max", "abs":
		a, err := args()
		if err != nil {
			return "", err
		}
		return "b" + id.Name + "(" + strings.Join(a, ", ") + ")", nil
	case "samefields":
		a, err := g.compileRaw(x.Args[0])
		if err != nil {
			return "", err
		}
		bb, err := g.compileRaw(x.Args[1])
		if err != nil {
			return "", err
		}
		av, err := g.env.eval(x.Args[0])
		if err != nil {
			return "", err
		}
		excl := map[string]bool{}
		for _, ex := range x.Args[2:] {
			excl[exprStr(ex)] = true
		}
		t := av.Typ
		if pt, ok := t.Underlying().(*types.Pointer); ok {
			t = pt.Elem()
		}
		var cs []string
		var walk func(pa, pb string, t types.Type)
		walk = func(pa, pb string, t types.Type) {
			st := t.Underlying().(*types.Struct)
			for i := 0; i < st.NumFields(); i++ {
				f := st.Field(i)
				if excl[f.Name()] {
					continue
				}
				if _, isStruct := f.Type().Underlying().(*types.Struct); isStruct {
					walk(pa+"."+f.Name(), pb+"."+f.Name(), f.Type())
					continue
				}
				cs = append(cs, fmt.Sprintf("(%s.%s == %s.%s)", pa, f.Name(), pb, f.Name()))
			}
		}
		walk(a, bb, t)
		if len(cs) == 0 {
			return "true", nil
		}
		return "(" + strings.Join(cs, " && ") + ")", nil
	case "isnil":
		s, err := g.compileRaw(x.Args[0])
		if err != nil {
			return "", err
		}
		return "(" + s + " == nil)", nil
	case "unchanged":
		now, err := g.compileRaw(x.Args[0])
		if err != nil {
			return "", err
		}
		g.nOld++
		n := fmt.Sprintf("old%d", g.nOld)
		g.olds = append(g.olds, fmt.Sprintf("%s := %s", n, now))
		return "(" + now + " == " + n + ")", nil
	}
	if k, ok := wrapKinds[id.Name]; ok && len(x.Args) == 1 {
		a, err := g.compile(x.Args[0])
		if err != nil {
			return "", err
		}
		sg := "false"
		if k.signed {
			sg = "true"
		}
		return fmt.Sprintf("wrapTo(%s, %d, %s)", a, k.bits, sg), nil
	}
	if sf, ok := g.vc.e.specFuncs[id.Name]; ok {
		sub := map[string]ast.Expr{}
		for i, p := range sf.Params {
			if i < len(x.Args) {
				sub[p] = x.Args[i]
			}
		}
		return g.compile(substExpr(sf.Body, sub))
	}
	return "", fmt.Errorf("spec function %s cannot be replayed", id.Name)
}

func mentions(e ast.Expr, name string) bool {
	found := false
	ast.Inspect(e, func(n ast.Node) bool {
		if id, ok := n.(*ast.Ident); ok && id.Name == name {
			found = true
		}
		return true
	})
	return found
}

const replayPrelude = `
func B(s string) *big.Int { v, _ := new(big.Int).SetString(s, 0); return v }
type vInt interface{ ~int | ~int8 | ~int16 | ~int32 | ~int64 | ~uint | ~uint8 | ~uint16 | ~uint32 | ~uint64 | ~uintptr }
func I[T vInt](x T) *big.Int { if x >= 0 { return new(big.Int).SetUint64(uint64(x)) }; return big.NewInt(int64(x)) }
func ix(x *big.Int) int { return int(x.Int64()) }
func add(a, b *big.Int) *big.Int { return new(big.Int).Add(a, b) }
func sub(a, b *big.Int) *big.Int { return new(big.Int).Sub(a, b) }
func mul(a, b *big.Int) *big.Int { return new(big.Int).Mul(a, b) }
func neg(a *big.Int) *big.Int { return new(big.Int).Neg(a) }
func fdiv(a, b *big.Int) *big.Int { q, m := new(big.Int).DivMod(a, b, new(big.Int)); _ = m; return q }
func fmod(a, b *big.Int) *big.Int { _, m := new(big.Int).DivMod(a, b, new(big.Int)); return m }
func shl(a, b *big.Int) *big.Int { return new(big.Int).Lsh(a, uint(b.Int64())) }
func shr(a, b *big.Int) *big.Int { return new(big.Int).Rsh(a, uint(b.Int64())) }
func band(a, b *big.Int) *big.Int { return new(big.Int).And(a, b) }
func bor(a, b *big.Int) *big.Int { return new(big.Int).Or(a, b) }
func eq(a, b *big.Int) bool { return a.Cmp(b) == 0 }
func lt(a, b *big.Int) bool { return a.Cmp(b) < 0 }
func le(a, b *big.Int) bool { return a.Cmp(b) <= 0 }
func bmin(a, b *big.Int) *big.Int { if a.Cmp(b) <= 0 { return a }; return b }
func bmax(a, b *big.Int) *big.Int { if a.Cmp(b) >= 0 { return a }; return b }
func babs(a *big.Int) *big.Int { return new(big.Int).Abs(a) }
func wrapTo(a *big.Int, bits int, signed bool) *big.Int {
	m := new(big.Int).Lsh(big.NewInt(1), uint(bits))
	r := new(big.Int).Mod(a, m)
	if signed && r.Cmp(new(big.Int).Rsh(m, 1)) >= 0 { r.Sub(r, m) }
	return r
}
func forall(lo, hi *big.Int, f func(*big.Int) bool) bool {
	for i := new(big.Int).Set(lo); i.Cmp(hi) < 0; i = new(big.Int).Add(i, big.NewInt(1)) { if !f(i) { return false } }
	return true
}
func exists(lo, hi *big.Int, f func(*big.Int) bool) bool {
	for i := new(big.Int).Set(lo); i.Cmp(hi) < 0; i = new(big.Int).Add(i, big.NewInt(1)) { if f(i) { return true } }
	return false
}
var _ = fmt.Sprint
`

// ---------------------------------------------------------------- driver

var replayScratch string
var replayCount int

func (cc *checkCtx) scratchRepo() (string, error) {
	if replayScratch != "" {
		return replayScratch, nil
	}
	dir, err := os.MkdirTemp("", "slockvc-replay-")
	if err != nil {
		return "", err
	}
	dst := filepath.Join(dir, "repo")
	cmd := exec.Command("rsync", "-a", "--exclude", ".git", cc.repo+"/", dst+"/")
	if out, err := cmd.CombinedOutput(); err != nil {
		os.RemoveAll(dir)
		return "", fmt.Errorf("rsync: %v %s", err, out)
	}
	replayScratch = dir
	return dir, nil
}

func cleanupScratch() {
	if replayScratch != "" {
		os.RemoveAll(replayScratch)
		replayScratch = ""
	}
}

func (cc *checkCtx) tryReplay(o *Obligation) *ReplayResult {
	if o.Res.Verdict != "sat" || o.VC == nil || o.VC.top == nil {
		return nil
	}
	if o.Kind != "post" && o.Kind != "safe" {
		return &ReplayResult{Note: "obligation concerns an intermediate state (" + o.Kind + "); no entry-state replay available"}
	}
	if replayCount >= 12 {
		return &ReplayResult{Note: "replay budget of this run exhausted"}
	}
	replayCount++
	rep, err := cc.replay(o)
	if err != nil {
		return &ReplayResult{Attempted: true, Note: "replay not possible: " + err.Error()}
	}
	return rep
}

func (cc *checkCtx) replay(o *Obligation) (*ReplayResult, error) {
	vc := o.VC
	fn := vc.top
	if fn.Pkg == nil {
		return nil, fmt.Errorf("function without package")
	}
	script, need := vc.scriptNeed(o, false)
	mo, verdict, err := startOracle(script)
	if err != nil {
		return nil, err
	}
	defer mo.Close()
	if verdict != "sat" {
		return nil, fmt.Errorf("z3-new does not reproduce the model (%s)", verdict)
	}
	b := &builder{mo: mo, vc: vc, need: need, pkg: fn.Pkg.Pkg, imports: map[string]string{}, objs: map[string]string{}, arrs: map[string]arrInfo{}}
	var argNames []string
	for i, p := range fn.Params {
		if i >= len(vc.topArgs) {
			return nil, fmt.Errorf("missing argument values")
		}
		av := vc.topArgs[i]
		var ex string
		if av.Elems != nil {
			return nil, fmt.Errorf("tuple parameter")
		}
		if _, isDef := vc.defIdx[av.T]; isDef && !need[av.T] {
			// the value does not influence the violation: any value will do
			if pt, ok := p.Type().Underlying().(*types.Pointer); ok {
				ex = fmt.Sprintf("new(%s)", b.typeStr(pt.Elem()))
			} else {
				ex = fmt.Sprintf("*new(%s)", b.typeStr(p.Type()))
			}
		} else {
			ex, err = b.value(p.Type(), av.T)
			if err != nil {
				return nil, err
			}
		}
		name := p.Name()
		if name == "_" || name == "" {
			name = fmt.Sprintf("arg%d", i)
		}
		b.emit("var %s %s = %s", name, b.typeStr(p.Type()), ex)
		b.emit("_ = %s", name)
		argNames = append(argNames, name)
	}
	// call expression
	var call string
	if fn.Signature.Recv() != nil {
		call = fmt.Sprintf("%s.%s(%s)", argNames[0], fn.Name(), strings.Join(argNames[1:], ", "))
	} else {
		call = fmt.Sprintf("%s(%s)", fn.Name(), strings.Join(argNames, ", "))
	}
	nres := fn.Signature.Results().Len()
	var rnames []string
	for i := 0; i < nres; i++ {
		rnames = append(rnames, fmt.Sprintf("r%d", i))
	}
	var check string
	var olds []string
	if o.Kind == "post" {
		if o.Spec == nil {
			return nil, fmt.Errorf("no clause attached")
		}
		bind := map[string]Val{}
		for i, p := range fn.Params {
			bind[p.Name()] = vc.topArgs[i]
		}
		res := Val{}
		if nres == 1 {
			res = vc.freshVal("rt", fn.Signature.Results().At(0).Type(), vc.heap0)
		} else if nres > 1 {
			res = vc.freshVal("rt", fn.Signature.Results(), vc.heap0)
		}
		env := &Env{vc: vc, names: bind, heap: vc.heap0, old: vc.heap0, pkg: fn.Pkg.Pkg, result: res}
		g := &goc{vc: vc, env: env, bound: map[string]bool{}, result: rnames, pkg: fn.Pkg.Pkg, b: b}
		check, err = g.compile(o.Spec.Expr)
		if err != nil {
			return nil, fmt.Errorf("clause cannot be compiled to Go: %v", err)
		}
		olds = g.olds
	}
	var src strings.Builder
	fmt.Fprintf(&src, "package %s\n\nimport (\n\t\"fmt\"\n\t\"math/big\"\n\t\"testing\"\n", fn.Pkg.Pkg.Name())
	for path, name := range b.imports {
		if path == "fmt" || path == "math/big" || path == "testing" {
			continue
		}
		fmt.Fprintf(&src, "\t%s %q\n", name, path)
	}
	src.WriteString(")\n")
	src.WriteString(replayPrelude)
	for _, name := range b.imports {
		_ = name
	}
	fmt.Fprintf(&src, "\nfunc TestVerifReplay(t *testing.T) {\n")
	fmt.Fprintf(&src, "\tdefer func() {\n\t\tif r := recover(); r != nil {\n\t\t\tfmt.Println(\"REPLAY-PANIC:\", r)\n\t\t}\n\t}()\n")
	fmt.Fprintf(&src, "\tvar _ = big.NewInt\n")
	for _, s := range b.stmts {
		fmt.Fprintf(&src, "\t%s\n", s)
	}
	for _, s := range olds {
		fmt.Fprintf(&src, "\t%s\n", s)
	}
	if nres > 0 {
		fmt.Fprintf(&src, "\t%s := %s\n", strings.Join(rnames, ", "), call)
		for _, r := range rnames {
			fmt.Fprintf(&src, "\t_ = %s\n", r)
		}
	} else {
		fmt.Fprintf(&src, "\t%s\n", call)
	}
	if o.Kind == "post" {
		fmt.Fprintf(&src, "\tif !(%s) {\n\t\tfmt.Println(\"REPLAY-REPRODUCED: clause is false on the real code\")\n\t} else {\n\t\tfmt.Println(\"REPLAY-HOLDS\")\n\t}\n", check)
	} else {
		fmt.Fprintf(&src, "\tfmt.Println(\"REPLAY-NO-PANIC\")\n")
	}
	src.WriteString("}\n")

	dir, err := cc.scratchRepo()
	if err != nil {
		return nil, err
	}
	rel, _ := filepath.Rel(cc.repo, filepath.Dir(cc.e.fset.Position(fn.Pos()).Filename))
	pkgDir := filepath.Join(dir, "repo", rel)
	testFile := filepath.Join(pkgDir, "zz_verif_replay_test.go")
	os.WriteFile(testFile, []byte(src.String()), 0o644)
	defer os.Remove(testFile)
	cmd := exec.Command("go", "test", "-v", "-vet=off", "-count=1", "-timeout", "60s", "-run", "^TestVerifReplay$", ".")
	cmd.Dir = pkgDir
	cmd.Env = append(os.Environ(), "GOFLAGS=-mod=mod", "GOPROXY=off", "GOSUMDB=off", "GOTOOLCHAIN=local")
	out, _ := cmd.CombinedOutput()
	// clean files dropped by the package's tests
	exec.Command("sh", "-c", "rm -f "+pkgDir+"/append.aof.* "+pkgDir+"/rewrite.aof* 2>/dev/null").Run()
	rep := &ReplayResult{Attempted: true, TestSource: src.String(), TestOutput: string(out)}
	so := string(out)
	switch {
	case strings.Contains(so, "REPLAY-REPRODUCED"):
		rep.Reproduced = true
		rep.Note = "the clause evaluates to false after running the real function on the model's entry state"
	case strings.Contains(so, "REPLAY-PANIC") && o.Kind == "safe":
		rep.Reproduced = true
		rep.Note = "the real function panics on the model's entry state"
	case strings.Contains(so, "REPLAY-PANIC"):
		rep.Note = "the real function panicked while replaying a functional obligation"
	case strings.Contains(so, "REPLAY-HOLDS"), strings.Contains(so, "REPLAY-NO-PANIC"):
		rep.Note = "model did not reproduce on the real code (contract or heap model too weak for this input)"
	default:
		rep.Note = "replay test did not build or run"
	}
	if len(b.notes) > 0 {
		rep.Note += "; " + strings.Join(dedup(b.notes), "; ")
	}
	return rep, nil
}

var _ ssa.Value
