package main

// Verification-condition state: definitions, heap, values, obligations, script emission.

import (
	"fmt"
	"go/token"
	"go/types"
	"math/big"
	"sort"
	"strings"

	"golang.org/x/tools/go/ssa"
)

type bigT = big.Int

var one = big.NewInt(1)

type LocKind int

const (
	locField LocKind = iota // heap map [obj]
	locElem                 // elems map [obj][idx]
	locCell                 // cell map [obj]
	locSub                  // field of parent location (struct value)
	locIdx                  // index into parent location (array value)
)

type Loc struct {
	Kind   LocKind
	Map    string
	Obj    string
	Idx    string
	Parent *Loc
	Field  int
	SI     *structInfo
	Typ    types.Type // type stored at the location
}

type Val struct {
	T     string
	Typ   types.Type
	Loc   *Loc
	Elems []Val
	Mask  *big.Int
	Fn    *ssa.Function
	Bind  []Val
	Dig   []string // base-256 digits (little endian) of a non-negative integer value: value == sum Dig[i]*256^i
	CLen  int64    // statically known slice length (+1), 0 = unknown
	Math  bool     // mathematical integer (spec)
	Glob  *ssa.Global // address of a package-level variable
	Boxed *Val // for interface values built by MakeInterface in this function: the concrete value
}

type Def struct {
	Name string
	Sort string
	Body string // "" = free constant
	Rng  string // assumption about the value, always true
}

type Assume struct {
	Guard string
	Body  string
	Why   string
	Block int // block of the top-level function being translated when the assumption was made (-1: unconditional)
}

type Obligation struct {
	Name   string
	Kind   string
	Tags   []string
	Fn     string
	Pos    string
	Expr   string
	Guard  string
	Cond   string
	Cut    int
	VC     *VC
	Res    SolverResult
	Status string // discharged | failed | undecided
	Extra  map[string]string
	Spec   *Clause // contract clause this obligation checks (for replay)
	Block  int     // block of the top-level function the obligation belongs to (-1 unknown)
}

type Heap struct {
	m     map[string]string
	epoch int
}

func (h Heap) clone() Heap {
	n := Heap{m: make(map[string]string, len(h.m)+4), epoch: h.epoch}
	for k, v := range h.m {
		n.m[k] = v
	}
	return n
}

type VC struct {
	privCells   map[string]*Loc // private local cells by reference term (isPrivateCell)
	e           *Engine
	top         *ssa.Function
	defs        []*Def
	defIdx      map[string]*Def
	funDecls    []string
	funSet      map[string]bool
	structs     map[string]*structInfo
	structOrder []string
	assumes     []Assume
	obls        []*Obligation
	n           int
	mapSorts    map[string]string
	strLits     map[string]string
	strLitOrder []string
	warnings    []string
	safe        bool
	safeTopOnly bool
	epochs      int
	oblNames    map[string]int
	stack       []*ssa.Function
	maxDepth    int
	budget      int
	ghostSorts  map[string]string
	heap0       Heap
	topArgs     []Val
	digCache    map[string][]string
	epochParent map[int]epochInfo
	curTopBlock int
	reachMat    [][]bool // reachMat[a][b]: block b of the top function is reachable from block a
	frameObj    map[string][]string // object-restricted frame of the function under verification: map -> allowed object terms
	frameWhole  map[string]bool
	frameN      int
	curFrame    *Frame
	lastNames   map[string]bool // callee names whose most recent call position is tracked (lastcall(...))
	countNames  map[string]bool // callee names whose executions are counted (mentioned in calls(...) of the contract)
	prop        string          // property being checked ("" = all clauses are used)
	used        map[string]bool // contracts applied modularly
	usedAssumes map[string]bool // unverified postconditions relied upon
}

func NewVC(e *Engine, top *ssa.Function) *VC {
	vc := &VC{e: e, top: top, defIdx: map[string]*Def{}, funSet: map[string]bool{}, structs: map[string]*structInfo{},
		mapSorts: map[string]string{}, strLits: map[string]string{}, oblNames: map[string]int{}, maxDepth: 6, budget: 20000,
		ghostSorts: map[string]string{}}
	return vc
}

func (vc *VC) warn(f string, a ...interface{}) {
	w := fmt.Sprintf(f, a...)
	for _, x := range vc.warnings {
		if x == w {
			return
		}
	}
	vc.warnings = append(vc.warnings, w)
}

func (vc *VC) freshName(hint string) string {
	vc.n++
	h := sanitize(hint)
	if len(h) > 40 {
		h = h[:40]
	}
	return fmt.Sprintf("%s!%d", h, vc.n)
}

// define a named constant with a body; returns its name
func (vc *VC) def(hint, sort, body string) string {
	n := vc.freshName(hint)
	d := &Def{Name: n, Sort: sort, Body: body}
	vc.defs = append(vc.defs, d)
	vc.defIdx[n] = d
	return n
}

func (vc *VC) free(hint, sort string) string {
	return vc.def(hint, sort, "")
}

func (vc *VC) setRng(name, rng string) {
	if d, ok := vc.defIdx[name]; ok && rng != "" && rng != "true" {
		if d.Rng == "" {
			d.Rng = rng
		} else {
			d.Rng = sAnd(d.Rng, rng)
		}
	}
}

func (vc *VC) assume(guard, body, why string) {
	if body == "true" {
		return
	}
	blk := -1
	if guard != "true" {
		blk = vc.curTopBlock
	}
	vc.assumes = append(vc.assumes, Assume{guard, body, why, blk})
}

func (vc *VC) declFun(name, sig string) {
	if vc.funSet[name] {
		return
	}
	vc.funSet[name] = true
	vc.funDecls = append(vc.funDecls, "(declare-fun "+name+" "+sig+")")
}

// ---------------------------------------------------------------- sorts

func (vc *VC) sortOf(t types.Type) string {
	switch u := t.Underlying().(type) {
	case *types.Basic:
		switch {
		case u.Info()&types.IsBoolean != 0:
			return "Bool"
		case u.Info()&types.IsString != 0:
			return "Str"
		case u.Info()&types.IsInteger != 0:
			return "Int"
		case u.Info()&types.IsFloat != 0, u.Info()&types.IsComplex != 0:
			return "Flt"
		case u.Kind() == types.UnsafePointer, u.Kind() == types.UntypedNil:
			return "Int"
		}
		return "Int"
	case *types.Pointer, *types.Chan, *types.Signature, *types.Map:
		return "Int"
	case *types.Slice:
		return "Slice"
	case *types.Interface:
		return "Iface"
	case *types.Array:
		return "(Array Int " + vc.sortOf(u.Elem()) + ")"
	case *types.Struct:
		return vc.structInfoOf(t).sort
	case *types.Tuple:
		return "Tuple?"
	}
	return "Int"
}

func (vc *VC) structInfoOf(t types.Type) *structInfo {
	st := t.Underlying().(*types.Struct)
	key := "S_" + typeKey(t)
	if _, named := t.(*types.Named); !named {
		key = fmt.Sprintf("S_anon_%s", sanitize(st.String()))
		if len(key) > 60 {
			key = key[:60]
		}
	}
	if si, ok := vc.structs[key]; ok {
		return si
	}
	si := &structInfo{sort: key, ctor: "mk_" + key, st: st}
	vc.structs[key] = si // register early (no recursion by value possible)
	for i := 0; i < st.NumFields(); i++ {
		si.fields = append(si.fields, fmt.Sprintf("%s_%s", key, st.Field(i).Name()))
		si.fsorts = append(si.fsorts, vc.sortOf(st.Field(i).Type()))
	}
	vc.structOrder = append(vc.structOrder, key)
	return si
}

func (vc *VC) zeroOf(t types.Type) string {
	switch u := t.Underlying().(type) {
	case *types.Basic:
		switch {
		case u.Info()&types.IsBoolean != 0:
			return "false"
		case u.Info()&types.IsString != 0:
			return vc.strLit("")
		case u.Info()&types.IsFloat != 0, u.Info()&types.IsComplex != 0:
			return "flt_zero"
		}
		return "0"
	case *types.Slice:
		return "(mk-slice 0 0 0 0)"
	case *types.Interface:
		return "(mk-iface 0 0)"
	case *types.Array:
		return "((as const " + vc.sortOf(t) + ") " + vc.zeroOf(u.Elem()) + ")"
	case *types.Struct:
		si := vc.structInfoOf(t)
		if len(si.fields) == 0 {
			return si.ctor
		}
		var zs []string
		for i := 0; i < u.NumFields(); i++ {
			zs = append(zs, vc.zeroOf(u.Field(i).Type()))
		}
		return sApp(si.ctor, zs...)
	}
	return "0"
}

func (vc *VC) strLit(s string) string {
	if n, ok := vc.strLits[s]; ok {
		return n
	}
	n := fmt.Sprintf("strlit!%d", len(vc.strLits))
	vc.strLits[s] = n
	vc.strLitOrder = append(vc.strLitOrder, s)
	return n
}

// well-formedness facts implied by the Go type of a value
func (vc *VC) wf(term string, t types.Type, alloc string) string {
	switch u := t.Underlying().(type) {
	case *types.Basic:
		if k, ok := intInfo(t); ok && u.Info()&types.IsUntyped == 0 {
			return sAnd(sApp("<=", k.min(), term), sApp("<=", term, k.max()))
		}
		if u.Info()&types.IsString != 0 {
			return "true" // slen >= 0 is a global axiom
		}
		if u.Kind() == types.UnsafePointer {
			return sApp("<=", "0", term)
		}
	case *types.Pointer, *types.Chan, *types.Signature, *types.Map:
		if alloc != "" {
			return sAnd(sApp("<=", "0", term), sApp("<", term, alloc))
		}
		return sApp("<=", "0", term)
	case *types.Slice:
		c := sAnd(sApp("<=", "0", sApp("s-off", term)), sApp("<=", "0", sApp("s-len", term)),
			sApp("<=", sApp("s-len", term), sApp("s-cap", term)), sApp("<=", sApp("s-cap", term), "4611686018427387904"), sApp("<=", "0", sApp("s-arr", term)),
			sImp(sApp("=", sApp("s-arr", term), "0"), sApp("=", sApp("s-cap", term), "0")))
		if alloc != "" {
			c = sAnd(c, sApp("<", sApp("s-arr", term), alloc))
		}
		return c
	case *types.Interface:
		c := sAnd(sApp("<=", "0", sApp("i-tag", term)), sImp(sApp("=", sApp("i-tag", term), "0"), sApp("=", sApp("i-val", term), "0")))
		return c
	case *types.Struct:
		si := vc.structInfoOf(t)
		var cs []string
		for i := 0; i < u.NumFields(); i++ {
			ft := u.Field(i).Type()
			if _, isArr := ft.Underlying().(*types.Array); isArr {
				continue
			}
			cs = append(cs, vc.wf(sApp(si.fields[i], term), ft, alloc))
		}
		return sAnd(cs...)
	}
	return "true"
}

// ---------------------------------------------------------------- heap

func (vc *VC) mapSort(name, sort string) {
	if _, ok := vc.mapSorts[name]; !ok {
		vc.mapSorts[name] = sort
	}
}

func (vc *VC) hget(h Heap, name string) string {
	if v, ok := h.m[name]; ok {
		if strings.HasPrefix(v, "?fresh:") {
			// the map was havocked before its sort was known: materialise the fresh constant now
			srt, ok := vc.mapSorts[name]
			if !ok {
				panic("heap map without sort: " + name)
			}
			n := name + "!h" + v[7:]
			if _, ok := vc.defIdx[n]; !ok {
				d := &Def{Name: n, Sort: srt}
				vc.defs = append(vc.defs, d)
				vc.defIdx[n] = d
			}
			h.m[name] = n
			return n
		}
		return v
	}
	ep := vc.resolveEpoch(name, h.epoch)
	base := fmt.Sprintf("%s@%d", name, ep)
	if _, ok := vc.defIdx[base]; !ok {
		srt, ok := vc.mapSorts[name]
		if !ok {
			panic("heap map without sort: " + name)
		}
		d := &Def{Name: base, Sort: srt}
		vc.defs = append(vc.defs, d)
		vc.defIdx[base] = d
		if name == "$alloc" {
			d.Rng = sApp("<", "0", base)
		}
		if strings.HasPrefix(name, "$calls_") {
			d.Rng = sEq(base, "0")
		}
	}
	return base
}

func (vc *VC) hset(h *Heap, name, term string) {
	srt := vc.mapSorts[name]
	n := vc.def(name, srt, term)
	h.m[name] = n
}

func (vc *VC) alloc(h Heap) string {
	vc.mapSort("$alloc", "Int")
	return vc.hget(h, "$alloc")
}

// fresh object reference
func (vc *VC) newRef(h *Heap, hint string) string {
	a := vc.alloc(*h)
	r := vc.def(hint, "Int", a)
	vc.hset(h, "$alloc", sApp("+", a, "1"))
	return r
}

type epochInfo struct {
	parent   int
	preserve []string
	merged   []int // epoch created by merging heaps of these epochs
}

// the epoch whose initial constant denotes map 'name' in a heap of epoch ep (for maps never written so far)
func (vc *VC) resolveEpoch(name string, ep int) int {
	for {
		info, ok := vc.epochParent[ep]
		if !ok {
			return ep
		}
		if info.merged != nil {
			first := vc.resolveEpoch(name, info.merged[0])
			for _, m := range info.merged[1:] {
				if vc.resolveEpoch(name, m) != first {
					return ep
				}
			}
			ep = first
			continue
		}
		if !matchPreserve(info.preserve, name) {
			return ep
		}
		ep = info.parent
	}
}

// preserve patterns are heap-map name prefixes; ghost maps are never modified by unknown code
func matchPreserve(pats []string, name string) bool {
	if name == "$alloc" {
		return false
	}
	if strings.HasPrefix(name, "G_") || strings.HasPrefix(name, "$calls_") {
		return true
	}
	for _, p := range pats {
		if p == "*" || strings.HasPrefix(name, p) {
			return true
		}
		if strings.HasPrefix(p, "M?_") && len(name) > 3 && (strings.HasPrefix(name, "MH_") || strings.HasPrefix(name, "MV_")) && strings.HasPrefix(name[3:], p[3:]) {
			return true
		}
	}
	return false
}

func (vc *VC) havocAll(h *Heap, guardWhy string) {
	vc.havocExcept(h, nil)
}

// havocExcept forgets everything about the heap except maps matching the preserve patterns
func (vc *VC) havocExcept(h *Heap, preserve []string) {
	restore := vc.savePrivCells(*h, func(m string) bool { return !matchPreserve(preserve, m) })
	defer restore(h)
	old := vc.alloc(*h)
	vc.epochs++
	keep := map[string]string{}
	for k, v := range h.m {
		if matchPreserve(preserve, k) {
			keep[k] = v
		}
	}
	if vc.epochParent == nil {
		vc.epochParent = map[int]epochInfo{}
	}
	vc.epochParent[vc.epochs] = epochInfo{parent: h.epoch, preserve: preserve}
	h.m = keep
	h.epoch = vc.epochs
	na := vc.alloc(*h)
	vc.setRng(na, sApp("<=", old, na))
}

// savePrivCells reads the private local cells (see isPrivateCell) that live in maps about to be forgotten and returns the
// function that writes them back afterwards
func (vc *VC) savePrivCells(h Heap, hit func(m string) bool) func(h *Heap) {
	type saved struct {
		l *Loc
		v string
	}
	var ss []saved
	for _, ref := range sortedKeys(vc.privCells) {
		l := vc.privCells[ref]
		if hit(l.Map) {
			ss = append(ss, saved{l, vc.loadLoc(h, l)})
		}
	}
	return func(h *Heap) {
		for _, s := range ss {
			vc.storeLoc(h, s.l, s.v)
		}
	}
}

func (vc *VC) havocMap(h *Heap, name string) {
	if strings.HasPrefix(name, "C_") && len(vc.privCells) > 0 {
		restore := vc.savePrivCells(*h, func(m string) bool { return m == name })
		defer restore(h)
	}
	srt, ok := vc.mapSorts[name]
	if !ok {
		vc.n++
		h.m[name] = fmt.Sprintf("?fresh:%d", vc.n)
		return
	}
	if name == "$alloc" {
		old := vc.alloc(*h)
		n := vc.free("$alloc", "Int")
		vc.setRng(n, sApp("<=", old, n))
		h.m[name] = n
		return
	}
	h.m[name] = vc.free(name, srt)
}

func (vc *VC) mergeHeaps(conds []string, hs []Heap) Heap {
	if len(hs) == 1 {
		return hs[0].clone()
	}
	// if epochs differ, normalise: materialise every map mentioned anywhere
	keys := map[string]bool{}
	sameEpoch := true
	for _, h := range hs {
		if h.epoch != hs[0].epoch {
			sameEpoch = false
		}
		for k := range h.m {
			keys[k] = true
		}
	}
	out := Heap{m: map[string]string{}, epoch: hs[0].epoch}
	if !sameEpoch {
		vc.epochs++
		out.epoch = vc.epochs
		var src []int
		for _, h := range hs {
			src = append(src, h.epoch)
		}
		if vc.epochParent == nil {
			vc.epochParent = map[int]epochInfo{}
		}
		vc.epochParent[vc.epochs] = epochInfo{merged: src}
		for k := range vc.mapSorts {
			keys[k] = true
		}
	}
	ks := make([]string, 0, len(keys))
	for k := range keys {
		ks = append(ks, k)
	}
	sort.Strings(ks)
	for _, k := range ks {
		if _, known := vc.mapSorts[k]; !known {
			// never touched so far (only havocked): keep the marker if identical everywhere, else a new one
			raw := hs[0].m[k]
			same := true
			for _, h := range hs {
				if h.m[k] != raw {
					same = false
				}
			}
			if same && raw != "" {
				out.m[k] = raw
			} else {
				vc.n++
				out.m[k] = fmt.Sprintf("?fresh:%d", vc.n)
			}
			continue
		}
		vals := make([]string, len(hs))
		same := true
		for i, h := range hs {
			vals[i] = vc.hget(h, k)
			if vals[i] != vals[0] {
				same = false
			}
		}
		if same {
			if _, explicit := hs[0].m[k]; explicit || !sameEpoch {
				out.m[k] = vals[0]
			}
			continue
		}
		t := vals[len(vals)-1]
		for i := len(vals) - 2; i >= 0; i-- {
			t = sIte(conds[i], vals[i], t)
		}
		out.m[k] = vc.def(k, vc.mapSorts[k], t)
	}
	return out
}

// ---------------------------------------------------------------- locations

func (vc *VC) loadLoc(h Heap, l *Loc) string {
	switch l.Kind {
	case locField, locCell:
		return sApp("select", vc.hget(h, l.Map), l.Obj)
	case locElem:
		return sApp("select", sApp("select", vc.hget(h, l.Map), l.Obj), l.Idx)
	case locSub:
		return sApp(l.SI.fields[l.Field], vc.loadLoc(h, l.Parent))
	case locIdx:
		return sApp("select", vc.loadLoc(h, l.Parent), l.Idx)
	}
	panic("bad loc")
}

func (vc *VC) storeLoc(h *Heap, l *Loc, v string) {
	if len(vc.frameObj) > 0 && (l.Kind == locField || l.Kind == locElem || l.Kind == locCell) && vc.curFrame != nil {
		vc.frameCheck(vc.curFrame, l.Map, l.Obj, token.NoPos)
	}
	switch l.Kind {
	case locField, locCell:
		vc.hset(h, l.Map, sApp("store", vc.hget(*h, l.Map), l.Obj, v))
	case locElem:
		m := vc.hget(*h, l.Map)
		vc.hset(h, l.Map, sApp("store", m, l.Obj, sApp("store", sApp("select", m, l.Obj), l.Idx, v)))
	case locSub:
		pv := vc.loadLoc(*h, l.Parent)
		pn := vc.def("sv", l.SI.sort, pv)
		args := make([]string, len(l.SI.fields))
		for i := range l.SI.fields {
			if i == l.Field {
				args[i] = v
			} else {
				args[i] = sApp(l.SI.fields[i], pn)
			}
		}
		vc.storeLoc(h, l.Parent, sApp(l.SI.ctor, args...))
	case locIdx:
		pv := vc.loadLoc(*h, l.Parent)
		vc.storeLoc(h, l.Parent, sApp("store", pv, l.Idx, v))
	}
}

func (vc *VC) fieldLoc(structT types.Type, idx int, obj string) *Loc {
	st := structT.Underlying().(*types.Struct)
	name := fieldMapName(structT, idx)
	ft := st.Field(idx).Type()
	vc.mapSort(name, "(Array Int "+vc.sortOf(ft)+")")
	return &Loc{Kind: locField, Map: name, Obj: obj, Typ: ft}
}

func (vc *VC) elemLoc(elem types.Type, arr, idx string) *Loc {
	name := elemMapName(elem)
	vc.mapSort(name, "(Array Int (Array Int "+vc.sortOf(elem)+"))")
	return &Loc{Kind: locElem, Map: name, Obj: arr, Idx: idx, Typ: elem}
}

func (vc *VC) cellLoc(t types.Type, obj string) *Loc {
	name := cellMapName(t)
	vc.mapSort(name, "(Array Int "+vc.sortOf(t)+")")
	return &Loc{Kind: locCell, Map: name, Obj: obj, Typ: t}
}

// whole-struct load through a reference
func (vc *VC) loadStruct(h Heap, t types.Type, ref string) string {
	st := t.Underlying().(*types.Struct)
	si := vc.structInfoOf(t)
	if st.NumFields() == 0 {
		return si.ctor
	}
	args := make([]string, st.NumFields())
	for i := 0; i < st.NumFields(); i++ {
		args[i] = vc.loadLoc(h, vc.fieldLoc(t, i, ref))
	}
	return sApp(si.ctor, args...)
}

func (vc *VC) storeStruct(h *Heap, t types.Type, ref string, v string) {
	st := t.Underlying().(*types.Struct)
	si := vc.structInfoOf(t)
	vn := vc.def("sv", si.sort, v)
	for i := 0; i < st.NumFields(); i++ {
		vc.storeLoc(h, vc.fieldLoc(t, i, ref), sApp(si.fields[i], vn))
	}
}

// ---------------------------------------------------------------- obligations

func (vc *VC) oblige(kind, name string, tags []string, guard, cond string, fn *ssa.Function, pos token.Pos, expr string) *Obligation {
	if cond == "true" || guard == "false" {
		// trivially discharged; still recorded for counting
	}
	vc.oblNames[name]++
	if c := vc.oblNames[name]; c > 1 {
		name = fmt.Sprintf("%s~%d", name, c)
	}
	o := &Obligation{Name: name, Kind: kind, Tags: tags, Guard: guard, Cond: cond, Cut: len(vc.assumes), VC: vc,
		Pos: vc.e.posStr(pos), Expr: expr, Block: vc.curTopBlock}
	if fn != nil {
		o.Fn = fnName(fn)
	}
	vc.obls = append(vc.obls, o)
	return o
}

// ---------------------------------------------------------------- script

const preludeBase = `(set-logic ALL)
(declare-sort Str 0)
(declare-sort Flt 0)
(declare-datatypes ((Slice 0)) (((mk-slice (s-arr Int) (s-off Int) (s-len Int) (s-cap Int)))))
(declare-datatypes ((Iface 0)) (((mk-iface (i-tag Int) (i-val Int)))))
(declare-fun slen (Str) Int)
(declare-fun sat (Str Int) Int)
(declare-fun sconcat (Str Str) Str)
(declare-fun ssub (Str Int Int) Str)
(declare-const flt_zero Flt)
`

const preludeStr = `(assert (forall ((s Str)) (! (and (<= 0 (slen s)) (<= (slen s) 4611686018427387904)) :pattern ((slen s)))))
(assert (forall ((s Str) (i Int)) (! (and (<= 0 (sat s i)) (<= (sat s i) 255)) :pattern ((sat s i)))))
(assert (forall ((a Str) (b Str)) (! (= (slen (sconcat a b)) (+ (slen a) (slen b))) :pattern ((sconcat a b)))))
(assert (forall ((s Str) (i Int) (j Int)) (! (=> (and (<= 0 i) (<= i j) (<= j (slen s))) (= (slen (ssub s i j)) (- j i))) :pattern ((ssub s i j)))))
(assert (forall ((s Str) (i Int) (j Int) (k Int)) (! (=> (and (<= 0 i) (<= i j) (<= j (slen s)) (<= 0 k) (< k (- j i))) (= (sat (ssub s i j) k) (sat s (+ i k)))) :pattern ((sat (ssub s i j) k)))))
`

// script for one obligation (cone of influence)
func (vc *VC) script(o *Obligation, wantModel bool) string {
	s, _ := vc.scriptNeed(o, wantModel)
	return s
}

func (vc *VC) scriptNeed(o *Obligation, wantModel bool) (string, map[string]bool) {
	need := map[string]bool{}
	var work []string
	addSyms := func(t string) {
		termSyms(t, func(s string) {
			if !need[s] {
				if _, ok := vc.defIdx[s]; ok {
					need[s] = true
					work = append(work, s)
				}
			}
		})
	}
	closure := func() {
		for len(work) > 0 {
			s := work[len(work)-1]
			work = work[:len(work)-1]
			d := vc.defIdx[s]
			if d.Body != "" {
				addSyms(d.Body)
			}
			if d.Rng != "" {
				addSyms(d.Rng)
			}
		}
	}
	addSyms(o.Guard)
	addSyms(o.Cond)
	closure()
	used := make([]bool, o.Cut)
	// assumptions: iterate to fixpoint on shared symbols
	asyms := make([][]string, o.Cut)
	for i := 0; i < o.Cut; i++ {
		seen := map[string]bool{}
		var f func(s string)
		f = func(s string) {
			if d, ok := vc.defIdx[s]; ok && !seen[s] {
				seen[s] = true
				asyms[i] = append(asyms[i], s)
				// names introduced by the specification layer (sf_*) stand for the terms they abbreviate
				if d.Body != "" && strings.HasPrefix(s, "sf_") {
					termSyms(d.Body, f)
				}
			}
		}
		termSyms(vc.assumes[i].Body, f)
	}
	skip := make([]bool, o.Cut)
	if vc.reachMat != nil && o.Block >= 0 && o.Block < len(vc.reachMat) {
		for i := 0; i < o.Cut; i++ {
			ab := vc.assumes[i].Block
			if ab >= 0 && ab < len(vc.reachMat) && ab != o.Block && !vc.reachMat[ab][o.Block] {
				skip[i] = true // made on a path that cannot lead to this obligation
			}
		}
	}
	for changed := true; changed; {
		changed = false
		for i := 0; i < o.Cut; i++ {
			if used[i] || skip[i] {
				continue
			}
			hit := len(asyms[i]) == 0
			for _, s := range asyms[i] {
				if need[s] {
					hit = true
					break
				}
			}
			if hit {
				used[i] = true
				changed = true
				addSyms(vc.assumes[i].Guard)
				addSyms(vc.assumes[i].Body)
				closure()
			}
		}
	}
	var b strings.Builder
	b.WriteString(preludeBase)
	strAx := b.Len()
	_ = strAx
	// struct datatypes, in registration order reversed dependencies: registration is pre-order, so emit in an order where
	// nested come first: sort by dependency
	emitted := map[string]bool{}
	var emit func(k string)
	emit = func(k string) {
		if emitted[k] {
			return
		}
		emitted[k] = true
		si := vc.structs[k]
		for _, fs := range si.fsorts {
			for dep := range vc.structs {
				if dep != k && strings.Contains(fs, dep) && (fs == dep || strings.Contains(fs, " "+dep+")") || strings.Contains(fs, " "+dep+" ")) {
					emit(dep)
				}
			}
		}
		if len(si.fields) == 0 {
			fmt.Fprintf(&b, "(declare-datatypes ((%s 0)) (((%s))))\n", si.sort, si.ctor)
			return
		}
		fmt.Fprintf(&b, "(declare-datatypes ((%s 0)) (((%s", si.sort, si.ctor)
		for i, f := range si.fields {
			fmt.Fprintf(&b, " (%s %s)", f, si.fsorts[i])
		}
		b.WriteString("))))\n")
	}
	for _, k := range vc.structOrder {
		emit(k)
	}
	for _, fd := range vc.funDecls {
		b.WriteString(fd)
		b.WriteString("\n")
	}
	// string literals
	if len(vc.strLitOrder) > 0 {
		var names []string
		for i, s := range vc.strLitOrder {
			n := vc.strLits[s]
			names = append(names, n)
			fmt.Fprintf(&b, "(declare-const %s Str)\n(assert (= (slen %s) %d))\n", n, n, len(s))
			if len(s) <= 64 {
				for j := 0; j < len(s); j++ {
					fmt.Fprintf(&b, "(assert (= (sat %s %d) %d))\n", n, j, s[j])
				}
			}
			_ = i
		}
		if len(names) > 1 {
			fmt.Fprintf(&b, "(assert (distinct %s))\n", strings.Join(names, " "))
		}
	}
	for _, d := range vc.defs {
		if !need[d.Name] {
			continue
		}
		if d.Body == "" {
			fmt.Fprintf(&b, "(declare-const %s %s)\n", d.Name, d.Sort)
		} else {
			fmt.Fprintf(&b, "(define-fun %s () %s %s)\n", d.Name, d.Sort, d.Body)
		}
	}
	for _, d := range vc.defs {
		if need[d.Name] && d.Rng != "" {
			fmt.Fprintf(&b, "(assert %s)\n", d.Rng)
		}
	}
	for i := 0; i < o.Cut; i++ {
		if used[i] {
			if o.Kind == "cover" && !strings.Contains(o.Name, "/cover/path:") && (strings.Contains(vc.assumes[i].Body, "(forall ") || strings.Contains(vc.assumes[i].Body, "(exists ")) {
				continue // cover queries check the quantifier-free part of the assumptions
			}
			fmt.Fprintf(&b, "(assert %s) ; %s\n", sImp(vc.assumes[i].Guard, vc.assumes[i].Body), vc.assumes[i].Why)
		}
	}
	if o.Kind == "cover" {
		fmt.Fprintf(&b, "(assert %s)\n", sAnd(o.Guard, o.Cond))
	} else {
		fmt.Fprintf(&b, "(assert %s)\n", sAnd(o.Guard, sNot(o.Cond)))
	}
	b.WriteString("(check-sat)\n")
	if wantModel {
		b.WriteString("(get-model)\n")
	}
	out := b.String()
	body := out[len(preludeBase):]
	if o.Kind != "cover" && (strings.Contains(body, "(slen ") || strings.Contains(body, "(sat ") || strings.Contains(body, "(sconcat ") || strings.Contains(body, "(ssub ")) {
		out = preludeBase + preludeStr + body
	}
	return out, need
}
