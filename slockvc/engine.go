package main

// Loading of /repo (current working tree), SSA construction, naming, sorts.

import (
	"sync"
	"fmt"
	"go/ast"
	"go/token"
	"go/types"
	"os"
	"path/filepath"
	"sort"
	"strings"

	"golang.org/x/tools/go/packages"
	"golang.org/x/tools/go/ssa"
	"golang.org/x/tools/go/ssa/ssautil"
)

const modPath = "github.com/snower/slock/"

type Engine struct {
	repo       string
	fset       *token.FileSet
	prog       *ssa.Program
	pkgs       map[string]*packages.Package // by short name: server, protocol, client
	spkgs      map[string]*ssa.Package
	funcs      map[string]*ssa.Function // normalized name -> function
	contracts  map[string]*Contract
	specFuncs  map[string]*SpecFunc
	axioms     []*Axiom
	lemmas     []*Lemma
	monitors   []*Monitor
	ghosts     map[string]*GhostDecl
	srcCache   map[string][]byte
	typeIds    map[string]int
	modsets    map[*ssa.Function]*ModSet
	rawsets    map[*ssa.Function]*ModSet // contract-free body summaries
	universe   []string // heap-map prefixes inside which frames are tracked
	mu         sync.Mutex
	unresolved map[string]int
	fieldMaps  []string
	roGlobals    map[*ssa.Global]bool // package-level variables that are only written by package initialisation
	globalSliceLen map[*ssa.Global]int64 // read-only slice tables initialised from a composite literal: their length
	nonNilGlobal map[*ssa.Global]bool // ... and are initialised with errors.New / fmt.Errorf
	knownFailing map[string]bool // "<function>/post:<tag>" of clauses listed as known findings
	safeOn     bool
	loadErrs   []string
}

func normName(s string) string {
	return strings.ReplaceAll(s, modPath, "")
}

func fnName(fn *ssa.Function) string {
	return normName(fn.String())
}

func LoadEngine(repo string) (*Engine, error) {
	e := &Engine{repo: repo, pkgs: map[string]*packages.Package{}, spkgs: map[string]*ssa.Package{},
		funcs: map[string]*ssa.Function{}, contracts: map[string]*Contract{}, specFuncs: map[string]*SpecFunc{},
		srcCache: map[string][]byte{}, typeIds: map[string]int{}, modsets: map[*ssa.Function]*ModSet{}, rawsets: map[*ssa.Function]*ModSet{}, ghosts: map[string]*GhostDecl{}}
	e.fset = token.NewFileSet()
	cfg := &packages.Config{Mode: packages.LoadAllSyntax, Dir: repo, Fset: e.fset, BuildFlags: []string{"-tags=verif"},
		Env: append(os.Environ(), "GOFLAGS=-mod=mod", "GOPROXY=off", "GOSUMDB=off", "GOTOOLCHAIN=local")}
	pkgs, err := packages.Load(cfg, "./server", "./protocol", "./client")
	if err != nil {
		return nil, err
	}
	for _, p := range pkgs {
		for _, er := range p.Errors {
			e.loadErrs = append(e.loadErrs, er.Error())
		}
	}
	if len(e.loadErrs) > 0 {
		return nil, fmt.Errorf("package load errors: %s", strings.Join(e.loadErrs, "; "))
	}
	prog, spkgs := ssautil.AllPackages(pkgs, ssa.GlobalDebug)
	prog.Build()
	e.prog = prog
	for i, p := range pkgs {
		e.pkgs[p.Name] = p
		e.spkgs[p.Name] = spkgs[i]
	}
	e.roGlobals = map[*ssa.Global]bool{}
	e.nonNilGlobal = map[*ssa.Global]bool{}
	e.globalSliceLen = map[*ssa.Global]int64{}
	written := map[*ssa.Global]bool{}
	for fn := range ssautil.AllFunctions(prog) {
		if !isInRepo(fn) {
			continue
		}
		isInit := fn.Name() == "init" || strings.HasPrefix(fn.Name(), "init#")
		for _, b := range fn.Blocks {
			for _, in := range b.Instrs {
				st, ok := in.(*ssa.Store)
				if !ok {
					continue
				}
				g, ok := st.Addr.(*ssa.Global)
				if !ok {
					continue
				}
				if !isInit {
					written[g] = true
					continue
				}
				if c, ok := st.Val.(*ssa.Call); ok {
					if f, ok := c.Call.Value.(*ssa.Function); ok && (fnName(f) == "errors.New" || fnName(f) == "fmt.Errorf") {
						e.nonNilGlobal[g] = true
					}
				}
				// a table initialised from a composite literal: its length is the literal's
				if sl, ok := st.Val.(*ssa.Slice); ok && sl.Low == nil && sl.High == nil {
					if al, ok := sl.X.(*ssa.Alloc); ok {
						if at, ok := al.Type().Underlying().(*types.Pointer).Elem().Underlying().(*types.Array); ok {
							e.globalSliceLen[g] = at.Len()
						}
					}
				}
			}
		}
	}
	for _, sp := range spkgs {
		if sp == nil {
			continue
		}
		for _, m := range sp.Members {
			if g, ok := m.(*ssa.Global); ok && !written[g] && strings.HasPrefix(sp.Pkg.Path(), strings.TrimSuffix(modPath, "/")) {
				e.roGlobals[g] = true
			}
		}
	}
	for fn := range ssautil.AllFunctions(prog) {
		if fn.Synthetic != "" && fn.Blocks == nil {
			continue
		}
		n := fnName(fn)
		if old, ok := e.funcs[n]; ok {
			// prefer the one with a body / non-synthetic
			if old.Synthetic == "" {
				continue
			}
		}
		e.funcs[n] = fn
	}
	return e, nil
}

func (e *Engine) src(file string) []byte {
	e.mu.Lock()
	defer e.mu.Unlock()
	if b, ok := e.srcCache[file]; ok {
		return b
	}
	b, _ := os.ReadFile(file)
	e.srcCache[file] = b
	return b
}

// text of the source between two positions
func (e *Engine) srcText(from, to token.Pos) string {
	if !from.IsValid() || !to.IsValid() {
		return ""
	}
	p1 := e.fset.Position(from)
	p2 := e.fset.Position(to)
	b := e.src(p1.Filename)
	if p1.Offset < 0 || p2.Offset > len(b) || p1.Offset > p2.Offset {
		return ""
	}
	return string(b[p1.Offset:p2.Offset])
}

func (e *Engine) posStr(p token.Pos) string {
	if !p.IsValid() {
		return "?"
	}
	ps := e.fset.Position(p)
	rel, err := filepath.Rel(e.repo, ps.Filename)
	if err != nil {
		rel = ps.Filename
	}
	return fmt.Sprintf("%s:%d", rel, ps.Line)
}

// find innermost AST node of a kind enclosing pos in the function's syntax
func (e *Engine) exprTextAt(fn *ssa.Function, pos token.Pos, want func(ast.Node) bool) string {
	syn := fn.Syntax()
	if syn == nil || !pos.IsValid() {
		return ""
	}
	var best ast.Node
	ast.Inspect(syn, func(n ast.Node) bool {
		if n == nil {
			return false
		}
		if n.Pos() <= pos && pos < n.End() {
			if want(n) {
				best = n
			}
			return true
		}
		return false
	})
	if best == nil {
		return ""
	}
	t := e.srcText(best.Pos(), best.End())
	t = strings.Join(strings.Fields(t), " ")
	if len(t) > 80 {
		t = t[:80]
	}
	return t
}

// ---------------------------------------------------------------- sorts

func sanitize(s string) string {
	var b strings.Builder
	for _, c := range s {
		switch {
		case c >= 'a' && c <= 'z', c >= 'A' && c <= 'Z', c >= '0' && c <= '9', c == '_':
			b.WriteRune(c)
		case c == '*':
			b.WriteString("P")
		case c == '[':
			b.WriteString("L")
		case c == ']':
			b.WriteString("J")
		case c == '.' || c == '/':
			b.WriteString("_")
		default:
			b.WriteString("_")
		}
	}
	return b.String()
}

func typeKey(t types.Type) string {
	return sanitize(normName(types.TypeString(t, nil)))
}

type intKind struct {
	bits   int
	signed bool
}

func intInfo(t types.Type) (intKind, bool) {
	b, ok := t.Underlying().(*types.Basic)
	if !ok {
		return intKind{}, false
	}
	switch b.Kind() {
	case types.Int8:
		return intKind{8, true}, true
	case types.Int16:
		return intKind{16, true}, true
	case types.Int32:
		return intKind{32, true}, true
	case types.Int64, types.Int, types.UntypedInt, types.UntypedRune:
		return intKind{64, true}, true
	case types.Uint8:
		return intKind{8, false}, true
	case types.Uint16:
		return intKind{16, false}, true
	case types.Uint32:
		return intKind{32, false}, true
	case types.Uint64, types.Uint, types.Uintptr:
		return intKind{64, false}, true
	}
	return intKind{}, false
}

func (k intKind) min() string {
	if !k.signed {
		return "0"
	}
	return "(- " + pow2s(k.bits-1) + ")"
}

func (k intKind) max() string {
	if !k.signed {
		return new(bigT).Sub(pow2(k.bits), one).String()
	}
	return new(bigT).Sub(pow2(k.bits-1), one).String()
}

func isFloat(t types.Type) bool {
	b, ok := t.Underlying().(*types.Basic)
	return ok && (b.Info()&types.IsFloat != 0 || b.Info()&types.IsComplex != 0)
}

func isString(t types.Type) bool {
	b, ok := t.Underlying().(*types.Basic)
	return ok && b.Info()&types.IsString != 0
}

func isBool(t types.Type) bool {
	b, ok := t.Underlying().(*types.Basic)
	return ok && b.Info()&types.IsBoolean != 0
}

func isRefLike(t types.Type) bool {
	switch u := t.Underlying().(type) {
	case *types.Pointer, *types.Chan, *types.Signature, *types.Map:
		return true
	case *types.Basic:
		return u.Kind() == types.UnsafePointer || u.Kind() == types.UntypedNil
	}
	return false
}

// struct datatype registry (per VC, since declarations are emitted per script)
type structInfo struct {
	sort   string
	ctor   string
	st     *types.Struct
	fields []string // accessor names
	fsorts []string
}

// ---------------------------------------------------------------- modsets

type ModSet struct {
	Outside bool // everything outside the frame universe may change (a contracted callee whose body could not be summarised)
	All    bool
	Except []string // when All: heap-map prefixes that are nevertheless preserved
	Maps   map[string]bool
}

func intersectPats(a, b []string) []string {
	// "*" preserves everything
	for _, x := range a {
		if x == "*" {
			return append([]string{}, b...)
		}
	}
	for _, y := range b {
		if y == "*" {
			return append([]string{}, a...)
		}
	}
	var out []string
	for _, x := range a {
		for _, y := range b {
			if strings.HasPrefix(x, y) {
				out = append(out, x)
				break
			} else if strings.HasPrefix(y, x) {
				out = append(out, y)
				break
			}
		}
	}
	return out
}

func (m *ModSet) add(o *ModSet) bool {
	ch := false
	if o.Outside && !m.Outside {
		m.Outside = true
		ch = true
	}
	if o.All {
		if !m.All {
			m.All = true
			m.Except = append([]string{}, o.Except...)
			ch = true
		} else {
			n := intersectPats(m.Except, o.Except)
			if len(n) != len(m.Except) {
				ch = true
			}
			m.Except = n
		}
	}
	for k := range o.Maps {
		if !m.Maps[k] {
			m.Maps[k] = true
			ch = true
		}
	}
	return ch
}

func (m *ModSet) list() []string {
	var l []string
	for k := range m.Maps {
		l = append(l, k)
	}
	sort.Strings(l)
	return l
}

// fieldMapName: heap map for a field of a heap-allocated struct
func fieldMapName(st types.Type, idx int) string {
	s := st.Underlying().(*types.Struct)
	return "F_" + typeKey(st) + "_" + s.Field(idx).Name()
}

func elemMapName(elem types.Type) string { return "E_" + typeKey(elem) }
func cellMapName(t types.Type) string    { return "C_" + typeKey(t) }

func isInRepo(fn *ssa.Function) bool {
	if fn == nil || fn.Pkg == nil {
		if fn != nil && fn.Parent() != nil {
			return isInRepo(fn.Parent())
		}
		// methods of instantiated generics etc.
		return fn != nil && strings.Contains(fn.String(), modPath)
	}
	return strings.HasPrefix(fn.Pkg.Pkg.Path(), strings.TrimSuffix(modPath, "/"))
}

// patternPrefix turns "server.Lock.*" / "Lock.*" (pkg relative) / "elems(T)" / raw prefixes into heap-map name prefixes
func patternPrefix(pkg, pat string) string {
	pat = strings.TrimSpace(pat)
	if pat == "*" {
		return "*"
	}
	if strings.HasPrefix(pat, "F_") || strings.HasPrefix(pat, "E_") || strings.HasPrefix(pat, "C_") || strings.HasPrefix(pat, "MH_") || strings.HasPrefix(pat, "MV_") || strings.HasPrefix(pat, "M?_") || strings.HasPrefix(pat, "G_") {
		return pat
	}
	if strings.HasPrefix(pat, "elems(") {
		return "E_" + sanitize(strings.TrimSuffix(strings.TrimPrefix(pat, "elems("), ")"))
	}
	if strings.HasPrefix(pat, "map(") {
		return "M?_" + sanitize(strings.TrimSuffix(strings.TrimPrefix(pat, "map("), ")"))
	}
	parts := strings.Split(pat, ".")
	switch len(parts) {
	case 2: // Type.* or Type.field
		t := parts[0]
		if pkg != "" {
			t = pkg + "." + t
		}
		if parts[1] == "*" {
			return "F_" + sanitize(t) + "_"
		}
		return "F_" + sanitize(t) + "_" + parts[1]
	case 3:
		if parts[2] == "*" {
			return "F_" + sanitize(parts[0]+"."+parts[1]) + "_"
		}
		return "F_" + sanitize(parts[0]+"."+parts[1]) + "_" + parts[2]
	}
	return pat
}

func (e *Engine) inUniverse(m string) bool {
	if len(e.universe) == 0 {
		return true
	}
	for _, u := range e.universe {
		if strings.HasPrefix(m, u) || (strings.HasPrefix(u, "M?_") && (strings.HasPrefix(m, "MH_"+u[3:]) || strings.HasPrefix(m, "MV_"+u[3:]))) {
			return true
		}
	}
	return false
}

// do the preserve patterns cover the whole universe?
func (e *Engine) coversUniverse(pats []string) bool {
	for _, u := range e.universe {
		ok := false
		for _, p := range pats {
			if p == "*" || strings.HasPrefix(u, p) {
				ok = true
				break
			}
		}
		if !ok {
			return false
		}
	}
	return true
}

// all field heap maps of the repository's struct types
func (e *Engine) allFieldMaps() []string {
	e.mu.Lock()
	defer e.mu.Unlock()
	if e.fieldMaps != nil {
		return e.fieldMaps
	}
	for _, p := range e.pkgs {
		scope := p.Types.Scope()
		for _, n := range scope.Names() {
			tn, ok := scope.Lookup(n).(*types.TypeName)
			if !ok {
				continue
			}
			st, ok := tn.Type().Underlying().(*types.Struct)
			if !ok {
				continue
			}
			for i := 0; i < st.NumFields(); i++ {
				e.fieldMaps = append(e.fieldMaps, fieldMapName(tn.Type(), i))
			}
		}
	}
	sort.Strings(e.fieldMaps)
	return e.fieldMaps
}

// universe prefixes not covered by the preserve patterns
func (e *Engine) uncovered(pats []string) []string {
	var out []string
	for _, u := range e.universe {
		ok := false
		for _, p := range pats {
			if p == "*" || strings.HasPrefix(u, p) {
				ok = true
				break
			}
		}
		if !ok {
			out = append(out, u)
		}
	}
	return out
}
