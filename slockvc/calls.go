package main

import (
	"fmt"
	"go/token"
	"go/types"
	"strings"

	"golang.org/x/tools/go/ssa"
)

// "(*server.LockManager).AddLock" -> "LockManager.AddLock"; "server.NewX" -> "NewX"
func calleeQual(name string) string {
	if strings.HasPrefix(name, "(") {
		end := strings.Index(name, ")")
		if end > 0 {
			t := strings.TrimPrefix(name[1:end], "*")
			if i := strings.LastIndex(t, "."); i >= 0 {
				t = t[i+1:]
			}
			return t + name[end+1:]
		}
	}
	return calleeShort(name)
}

func calleeShort(name string) string {
	// "(*server.LockManager).AddLock" -> "AddLock"; "server.NewX" -> "NewX"
	if i := strings.LastIndex(name, "."); i >= 0 {
		return name[i+1:]
	}
	return name
}

func (fr *Frame) doCall(call *ssa.CallCommon, instr *ssa.Call, pos token.Pos) Val {
	vc := fr.vc
	var resT types.Type = call.Signature().Results()
	if call.Signature().Results().Len() == 1 {
		resT = call.Signature().Results().At(0).Type()
	}
	var args []Val
	if call.IsInvoke() {
		recv := fr.val(call.Value)
		args = append(args, recv)
		for _, a := range call.Args {
			args = append(args, fr.val(a))
		}
		fr.safeObl("nil", sNot(sEq(sApp("i-tag", recv.T), "0")), pos, "method call on nil interface")
		key := "(" + normName(types.TypeString(call.Value.Type(), nil)) + ")." + call.Method.Name()
		short := call.Method.Name()
		fr.callOrd[short]++
		ord := fr.callOrd[short]
		fr.countCall(short)
		fr.curQual = calleeQual(key)
		if fr.curQual != short {
			fr.countCall(fr.curQual) // a package-level function has no qualified name of its own: count it once
		}
		fr.siteClauses(short, ord, "before", args, nil, Val{}, pos)
		fr.snapshotPreCall()
		var r Val
		if c, ok := vc.e.contracts[key]; ok {
			r = fr.applyContract(c, nil, call.Signature(), args, resT, key, short, ord, pos)
		} else {
			// unknown dynamic callee
			vc.havocAll(&fr.heap, "invoke "+key)
			r = vc.freshVal("inv_"+call.Method.Name(), resT, fr.heap)
		}
		fr.siteClauses(short, ord, "after", args, nil, r, pos)
		return r
	}
	for _, a := range call.Args {
		args = append(args, fr.val(a))
	}
	switch f := call.Value.(type) {
	case *ssa.Builtin:
		// builtins can be addressed by site clauses too (at call append ...)
		if fr.contract != nil && len(fr.contract.Sites) > 0 {
			short := f.Name()
			fr.callOrd[short]++
			fr.curQual = short
			fr.siteClauses(short, fr.callOrd[short], "before", args, nil, Val{}, pos)
		}
		return fr.builtin(f.Name(), call, args, resT, pos)
	case *ssa.Function:
		r := fr.callFunc(f, nil, args, resT, pos)
		if c := vc.e.contracts[fnName(f)]; c != nil && c.PureResult {
			fr.assumePure(fnName(f), call, r)
		}
		return r
	case *ssa.MakeClosure:
		fv := fr.val(f)
		return fr.callFunc(fv.Fn, fv.Bind, args, resT, pos)
	default:
		fv := fr.val(call.Value)
		if fv.Fn != nil {
			return fr.callFunc(fv.Fn, fv.Bind, args, resT, pos)
		}
		fr.safeObl("nil", sNot(sEq(fv.T, "0")), pos, "call of nil func")
		// calls through a function value: site clauses address them by the name of the variable
		short := call.Value.Name()
		if p, ok := call.Value.(*ssa.Parameter); ok {
			short = p.Name()
		}
		fr.callOrd[short]++
		ord := fr.callOrd[short]
		fr.countCall(short)
		fr.curQual = short
		fr.siteClauses(short, ord, "before", args, nil, Val{}, pos)
		fr.snapshotPreCall()
		vc.havocAll(&fr.heap, "dynamic call")
		r := vc.freshVal("dyn", resT, fr.heap)
		fr.siteClauses(short, ord, "after", args, nil, r, pos)
		return r
	}
}

func (fr *Frame) callFunc(f *ssa.Function, binds []Val, args []Val, resT types.Type, pos token.Pos) Val {
	vc := fr.vc
	name := fnName(f)
	short := calleeShort(name)
	fr.callOrd[short]++
	ord := fr.callOrd[short]
	fr.countCall(short)
	fr.curQual = calleeQual(name)
	if fr.curQual != short {
		fr.countCall(fr.curQual) // a package-level function has no qualified name of its own: count it once
	}
	qual := fr.curQual
	fr.siteClauses(short, ord, "before", args, f, Val{}, pos)
	fr.snapshotPreCall()
	var r Val
	c := vc.e.contracts[name]
	// a function literal that is not inlined may write the cells it binds: they are not private for this call
	var suspended map[string]*Loc
	suspend := func() {
		for _, b := range binds {
			if l, ok := vc.privCells[b.T]; ok {
				if suspended == nil {
					suspended = map[string]*Loc{}
				}
				suspended[b.T] = l
				delete(vc.privCells, b.T)
			}
		}
	}
	defer func() {
		for k, l := range suspended {
			vc.privCells[k] = l
		}
	}()
	switch {
	case nativeExternal(name):
		r = fr.native(name, f, args, resT, pos)
	case c != nil && !c.Inline && (len(c.Requires) > 0 || len(c.Ensures) > 0 || len(c.Assumes) > 0 || c.ModGiven || c.External || c.Trusted != ""):
		suspend()
		r = fr.applyContract(c, f, f.Signature, args, resT, name, short, ord, pos)
	case f.Blocks != nil && isInRepo(f) && fr.canInline(f):
		r = fr.inline(f, binds, args, resT, short, ord)
	case f.Blocks != nil && isInRepo(f):
		// too deep / recursive: havoc what it may modify
		suspend()
		ms := vc.e.fnMods(f, map[*ssa.Function]bool{})
		vc.warn("call to %s not inlined (depth/recursion): havoc of its modset", name)
		fr.havocMods(ms)
		r = vc.freshVal("call_"+short, resT, fr.heap)
	default:
		suspend()
		ms := &ModSet{Maps: map[string]bool{}}
		// externals: frame assumption (DESIGN 2.7): only memory reachable from arguments is modified
		fake := &ssa.CallCommon{Value: f}
		_ = fake
		fr.externalHavoc(f, args, ms)
		r = vc.freshVal("ext_"+short, resT, fr.heap)
	}
	fr.curQual = qual
	fr.siteClauses(short, ord, "after", args, f, r, pos)
	return r
}

func (fr *Frame) externalHavoc(f *ssa.Function, args []Val, ms *ModSet) {
	vc := fr.vc
	for _, a := range args {
		if a.Typ == nil {
			continue
		}
		if a.Boxed != nil && a.Boxed.Typ != nil {
			a = *a.Boxed // an interface argument whose concrete value is known: the callee may write through it
		} else if types.IsInterface(a.Typ) {
			// opaque interface argument: the callee may reach arbitrary memory outside the tracked universe
			if len(vc.e.universe) > 0 {
				vc.havocExcept(&fr.heap, vc.e.universe)
			}
			continue
		}
		switch t := a.Typ.Underlying().(type) {
		case *types.Slice:
			vc.elemLoc(t.Elem(), "0", "0")
			ms.Maps[elemMapName(t.Elem())] = true
		case *types.Pointer:
			el := t.Elem()
			if a.Loc != nil {
				// havoc exactly the pointed location
				nv := vc.freshVal("extw", el, fr.heap)
				vc.storeLoc(&fr.heap, a.Loc, nv.T)
				continue
			}
			switch u := el.Underlying().(type) {
			case *types.Struct:
				if nm, ok := el.(*types.Named); ok && nm.Obj().Pkg() != nil && strings.HasPrefix(nm.Obj().Pkg().Path(), strings.TrimSuffix(modPath, "/")) {
					for i := 0; i < u.NumFields(); i++ {
						vc.fieldLoc(el, i, "0")
						ms.Maps[fieldMapName(el, i)] = true
					}
				}
			case *types.Array:
				vc.elemLoc(u.Elem(), "0", "0")
				ms.Maps[elemMapName(u.Elem())] = true
			}
		case *types.Signature:
			ms.All = true
		}
	}
	fr.havocMods(ms)
}

func (fr *Frame) havocMods(ms *ModSet) {
	vc := fr.vc
	if ms.All {
		vc.havocExcept(&fr.heap, ms.Except)
	} else if ms.Outside {
		vc.havocExcept(&fr.heap, vc.e.universe)
	}
	for _, m := range ms.list() {
		vc.havocMap(&fr.heap, m)
	}
	vc.havocMap(&fr.heap, "$alloc")
}

func (fr *Frame) canInline(f *ssa.Function) bool {
	vc := fr.vc
	if fr.depth >= vc.maxDepth {
		return false
	}
	for _, s := range vc.stack {
		if s == f {
			return false
		}
	}
	n := 0
	for _, b := range f.Blocks {
		n += len(b.Instrs)
	}
	if vc.budget-n < 0 {
		return false
	}
	vc.budget -= n
	return true
}

func (fr *Frame) inline(f *ssa.Function, binds []Val, args []Val, resT types.Type, short string, ord int) Val {
	vc := fr.vc
	path := fmt.Sprintf("%s#%d", short, ord)
	if fr.path != "" {
		path = fr.path + "/" + path
	}
	sub := vc.newFrame(f, fr.depth+1, path)
	for i, fv := range f.FreeVars {
		if i < len(binds) {
			sub.vals[fv] = binds[i]
		}
	}
	vc.stack = append(vc.stack, f)
	rv, h, rr := sub.run(args, fr.curReach, fr.heap)
	vc.stack = vc.stack[:len(vc.stack)-1]
	fr.heap = h
	// a callee that cannot return (always panics / loops forever) makes the rest of the block unreachable
	if rr != fr.curReach {
		// reach shrinks only if the callee may not return; over-approximate by keeping the block reach.
		// Panics inside the callee have their own safe obligations.
		_ = rr
	}
	if rv.T == "" && rv.Elems == nil {
		return Val{Typ: resT}
	}
	return rv
}

// ---------------------------------------------------------------- contracts at call sites

func paramNames(c *Contract, f *ssa.Function, sig *types.Signature, isInvoke bool) []string {
	if len(c.Params) > 0 {
		return c.Params
	}
	var names []string
	if f != nil {
		for _, p := range f.Params {
			names = append(names, p.Name())
		}
		return names
	}
	if isInvoke {
		names = append(names, "self")
	}
	for i := 0; i < sig.Params().Len(); i++ {
		n := sig.Params().At(i).Name()
		if n == "" || n == "_" {
			n = fmt.Sprintf("arg%d", i)
		}
		names = append(names, n)
	}
	return names
}

func (fr *Frame) applyContract(c *Contract, f *ssa.Function, sig *types.Signature, args []Val, resT types.Type, key, short string, ord int, pos token.Pos) Val {
	vc := fr.vc
	names := paramNames(c, f, sig, f == nil)
	bind := map[string]Val{}
	for i, n := range names {
		if i < len(args) {
			bind[n] = args[i]
		}
	}
	pkg := vc.e.pkgOfContract(c)
	// preconditions
	for i, cl := range c.Requires {
		env := &Env{vc: vc, names: bind, heap: fr.heap, old: fr.heap, pkg: pkg, fr: nil, reach: fr.curReach}
		t, err := env.evalBool(cl.Expr)
		if err != nil {
			vc.specError(fr.fn, cl, err)
			continue
		}
		name := fmt.Sprintf("%s/pre@call/%s#%d:%s", fnName(fr.fn), short, ord, clauseId(cl, i))
		if fr.path != "" {
			name += "@" + fr.path
		}
		o := vc.oblige("pre@call", name, cl.Tags, fr.curReach, t, fr.fn, pos, cl.Src)
		o.Extra = map[string]string{"contract": fmt.Sprintf("%s:%d", cl.File, cl.Line), "callee": key}
	}
	pre := fr.heap.clone()
	// frame
	if c.ModGiven {
		vc.e.contractModsVC(vc, c)
		ms := vc.e.contractWholeMods(c)
		if !ms.All && len(vc.e.universe) > 0 && !c.External {
			// frames are tracked inside the universe only: outside it the callee's contract-free body summary
			// says what may change (everything, when there is no body or the summary is unbounded)
			om := vc.e.contractModsOf(c, f)
			if om.Outside {
				vc.havocExcept(&fr.heap, vc.e.universe)
			} else {
				for _, m := range om.list() {
					if !vc.e.inUniverse(m) {
						vc.havocMap(&fr.heap, m)
					}
				}
			}
		}
		for m := range ms.Maps {
			vc.frameCheckWhole(fr, m, pos, key)
		}
		if ms.All {
			vc.frameCheckAll(fr, ms.Except, pos, key)
		}
		fr.havocMods(ms)
		// object-restricted entries: only the named object's slot changes
		for _, mo := range c.ModObj {
			env := &Env{vc: vc, names: bind, heap: pre, old: pre, pkg: pkg, reach: fr.curReach}
			ov, err := env.eval(mo.Expr)
			if err != nil {
				vc.warn("frame entry %s of %s: %v", mo.Src, key, err)
				for _, n := range vc.e.resolveModName(c.Pkg, mo.Field) {
					vc.havocMap(&fr.heap, n)
				}
				continue
			}
			obj := ov.T
			if ov.Typ != nil {
				if _, isSlice := ov.Typ.Underlying().(*types.Slice); isSlice {
					obj = sApp("s-arr", ov.T)
				}
			}
			for _, n := range vc.e.resolveModName(c.Pkg, mo.Field) {
				srt, ok := vc.mapSorts[n]
				if !ok {
					continue
				}
				vc.frameCheck(fr, n, obj, pos)
				// element sort of (Array Int X)
				es := strings.TrimSuffix(strings.TrimPrefix(srt, "(Array Int "), ")")
				nv := vc.free("fr_"+n, es)
				vc.hset(&fr.heap, n, sApp("store", vc.hget(fr.heap, n), obj, nv))
			}
		}
	} else if f != nil && f.Blocks != nil && isInRepo(f) {
		fr.havocMods(vc.e.fnMods(f, map[*ssa.Function]bool{}))
	} else if f != nil {
		fr.externalHavoc(f, args, &ModSet{Maps: map[string]bool{}})
	} else {
		vc.havocAll(&fr.heap, "invoke "+key)
	}
	res := vc.freshVal("res_"+short, resT, fr.heap)
	// ghost effects
	for _, g := range c.Ghost {
		env := &Env{vc: vc, names: bind, heap: pre, old: pre, pkg: pkg, reach: fr.curReach}
		env.result = res
		env.post = fr.heap
		idx, err1 := env.eval(g.Index)
		val, err2 := env.eval(g.Value)
		if err1 != nil || err2 != nil {
			vc.warn("ghost effect %s: %v %v", g.Src, err1, err2)
			continue
		}
		gm := vc.ghostMap(g.Target)
		vc.hset(&fr.heap, gm, sApp("store", vc.hget(pre, gm), idx.T, val.T))
	}
	relied := false
	markUsed := func() {
		if !c.External && f != nil {
			if vc.used == nil {
				vc.used = map[string]bool{}
			}
			vc.used[key] = true
		}
	}
	if c.ModGiven && !(c.ModAll && len(c.Preserves) == 0) {
		relied = true // the caller keeps knowledge about everything outside the callee's frame
	}
	if relied {
		markUsed()
	}
	// postconditions
	posts := append(append([]*Clause{}, c.Ensures...), c.Assumes...)
	if len(c.Assumes) > 0 {
		if vc.usedAssumes == nil {
			vc.usedAssumes = map[string]bool{}
		}
		for _, cl := range c.Assumes {
			vc.usedAssumes[key+": "+cl.Src] = true
		}
	}
	for _, cl := range posts {
		if len(cl.Tags) > 0 && vc.e.knownFailing[key+"/post:"+cl.Tags[0]] {
			continue // a clause recorded as a known finding is false on some inputs: callers must not rely on it
		}
		if vc.prop != "" && otherPropOnly(cl.Tags, vc.prop) {
			continue // a check of property P relies only on clauses that are untagged or tagged P
		}
		env := &Env{vc: vc, names: bind, heap: fr.heap, old: pre, pkg: pkg, reach: fr.curReach}
		env.result = res
		t, err := env.evalBool(cl.Expr)
		if err != nil {
			// clauses over the callee's local variables are checked in the callee only; they say nothing to a caller
			vc.warn("post of %s not usable at call site: %v", key, err)
			continue
		}
		vc.assume(fr.curReach, t, "post of "+key)
		markUsed()
	}
	return res
}

func (e *Engine) contractModsVC(vc *VC, c *Contract) *ModSet {
	ms := e.contractMods(c)
	// make sure sorts of the named maps are known: look them up from the type information
	for m := range ms.Maps {
		if _, ok := vc.mapSorts[m]; !ok {
			e.declareMapByName(vc, m)
		}
	}
	return ms
}

// derive the sort of a heap map from its name by searching the loaded packages
func (e *Engine) declareMapByName(vc *VC, m string) {
	if strings.HasPrefix(m, "G_") {
		vc.ghostMap(strings.TrimPrefix(m, "G_"))
		return
	}
	if strings.HasPrefix(m, "E_") {
		// element map of slices of a named type or of pointers to one: find the type by its key
		for _, p := range e.pkgs {
			scope := p.Types.Scope()
			for _, n := range scope.Names() {
				tn, ok := scope.Lookup(n).(*types.TypeName)
				if !ok {
					continue
				}
				for _, cand := range []types.Type{tn.Type(), types.NewPointer(tn.Type())} {
					if elemMapName(cand) == m {
						vc.elemLoc(cand, "0", "0")
						return
					}
				}
			}
		}
		return
	}
	if !strings.HasPrefix(m, "F_") {
		return
	}
	for _, p := range e.pkgs {
		scope := p.Types.Scope()
		for _, n := range scope.Names() {
			tn, ok := scope.Lookup(n).(*types.TypeName)
			if !ok {
				continue
			}
			st, ok := tn.Type().Underlying().(*types.Struct)
			if !ok {
				continue
			}
			prefix := "F_" + typeKey(tn.Type()) + "_"
			if strings.HasPrefix(m, prefix) {
				fname := strings.TrimPrefix(m, prefix)
				for i := 0; i < st.NumFields(); i++ {
					if st.Field(i).Name() == fname {
						vc.fieldLoc(tn.Type(), i, "0")
						return
					}
				}
			}
		}
	}
}

func (vc *VC) ghostMap(name string) string {
	m := "G_" + name
	srt := "Int"
	if g, ok := vc.e.ghosts[name]; ok {
		srt = g.Sort
	}
	vc.mapSort(m, "(Array Int "+srt+")")
	return m
}

func (e *Engine) pkgOfContract(c *Contract) *types.Package {
	if p, ok := e.pkgs[c.Pkg]; ok {
		return p.Types
	}
	return nil
}

// site clauses of the function being verified: "at call X#n assert e"
func (fr *Frame) siteClauses(short string, ord int, when string, args []Val, f *ssa.Function, res Val, pos token.Pos) {
	if fr.contract == nil {
		return
	}
	vc := fr.vc
	for i, sc := range fr.contract.Sites {
		if (sc.Callee != short && sc.Callee != fr.curQual) || sc.When != when {
			continue
		}
		if sc.Ordinal != 0 {
			o := ord
			if sc.Callee == fr.curQual && sc.Callee != short {
				o = fr.qualOrd[fr.curQual]
			}
			if sc.Ordinal != o {
				continue
			}
		}
		if sc.Kind == "havoc" {
			for _, m := range sc.Havoc {
				for _, n := range vc.e.resolveModName(fr.contract.Pkg, m) {
					if _, ok := vc.mapSorts[n]; !ok {
						vc.e.declareMapByName(vc, n)
					}
					vc.havocMap(&fr.heap, n)
				}
			}
			fr.secHeap = fr.heap.clone()
			continue
		}
		env := fr.envAt(fr.curBlock, true, nil)
		env.heap = fr.heap
		env.sec = fr.secHeap
		if when == "after" {
			env.pre = fr.preCall
		}
		if fr.curInstr != nil {
			env.maxOrd = fr.instrOrd[fr.curInstr]
		}
		// arguments by position: arg0, arg1, ... and callee parameter names prefixed with "$"
		for j, a := range args {
			env.names[fmt.Sprintf("arg%d", j)] = a
		}
		if f != nil {
			for j, p := range f.Params {
				if j < len(args) {
					env.names["$"+p.Name()] = args[j]
				}
			}
		}
		if when == "after" {
			env.names["callresult"] = res
		}
		t, err := env.evalBool(sc.Expr)
		if err != nil {
			vc.specError(fr.fn, &sc.Clause, err)
			continue
		}
		if sc.Kind == "assume" {
			vc.assume(fr.curReach, t, "site assume")
			continue
		}
		name := fmt.Sprintf("%s/site/%s#%d:%s", fnName(fr.fn), short, ord, clauseId(&sc.Clause, i))
		if fr.path != "" {
			name += "@" + fr.path
		}
		o := vc.oblige("site", name, sc.Tags, fr.curReach, t, fr.fn, pos, sc.Src)
		o.Extra = map[string]string{"contract": fmt.Sprintf("%s:%d", sc.File, sc.Line)}
	}
}

// ---------------------------------------------------------------- builtins

func (fr *Frame) builtin(name string, call *ssa.CallCommon, args []Val, resT types.Type, pos token.Pos) Val {
	vc := fr.vc
	switch name {
	case "len":
		a := args[0]
		switch t := a.Typ.Underlying().(type) {
		case *types.Slice:
			return Val{T: sApp("s-len", a.T), Typ: resT}
		case *types.Basic:
			return Val{T: sApp("slen", a.T), Typ: resT}
		case *types.Array:
			return Val{T: sInt(t.Len()), Typ: resT}
		case *types.Pointer:
			if at, ok := t.Elem().Underlying().(*types.Array); ok {
				return Val{T: sInt(at.Len()), Typ: resT}
			}
		case *types.Map:
			vc.declFun("maplen", "(Int (Array Int (Array "+vc.keySort(t.Key())+" Bool))) Int")
			hm, _ := vc.mapHeaps(t)
			_ = hm
			n := vc.free("maplen", "Int")
			vc.setRng(n, sApp("<=", "0", n))
			return Val{T: n, Typ: resT}
		}
		n := vc.free("len", "Int")
		vc.setRng(n, sApp("<=", "0", n))
		return Val{T: n, Typ: resT}
	case "cap":
		a := args[0]
		if _, ok := a.Typ.Underlying().(*types.Slice); ok {
			return Val{T: sApp("s-cap", a.T), Typ: resT}
		}
		n := vc.free("cap", "Int")
		vc.setRng(n, sApp("<=", "0", n))
		return Val{T: n, Typ: resT}
	case "append":
		return fr.doAppend(args, resT)
	case "copy":
		return fr.doCopy(args, resT)
	case "delete":
		mt := args[0].Typ.Underlying().(*types.Map)
		hm, _ := vc.mapHeaps(mt)
		k := vc.keyTerm(args[1], mt.Key())
		cur := vc.hget(fr.heap, hm)
		vc.hset(&fr.heap, hm, sIte(sEq(args[0].T, "0"), cur, sApp("store", cur, args[0].T, sApp("store", sApp("select", cur, args[0].T), k, "false"))))
		return Val{}
	case "print", "println", "close":
		return Val{}
	case "recover":
		return vc.freshVal("recover", resT, fr.heap)
	case "min", "max":
		if len(args) == 2 {
			op := "<="
			if name == "max" {
				op = ">="
			}
			return Val{T: sIte(sApp(op, args[0].T, args[1].T), args[0].T, args[1].T), Typ: resT}
		}
	case "panic":
		if vc.safe {
			fr.safeObl("panic", "false", pos, "explicit panic")
		}
		fr.panicked = true
		return Val{}
	case "ssa:wrapnilchk":
		fr.nonNil(args[0], pos)
		return args[0]
	}
	vc.warn("builtin %s unsupported", name)
	if resT == nil {
		return Val{}
	}
	return vc.freshVal("bi_"+name, resT, fr.heap)
}

func (fr *Frame) sliceElems(s Val) (string, types.Type) {
	el := s.Typ.Underlying().(*types.Slice).Elem()
	l := fr.vc.elemLoc(el, "0", "0")
	return l.Map, el
}

func (fr *Frame) doAppend(args []Val, resT types.Type) Val {
	vc := fr.vc
	s, t := args[0], args[1]
	if _, ok := s.Typ.Underlying().(*types.Slice); !ok {
		return vc.freshVal("append", resT, fr.heap)
	}
	mapName, el := fr.sliceElems(s)
	es := vc.sortOf(el)
	E := vc.hget(fr.heap, mapName)
	sn := vc.namedVal("app_s", s)
	slen, soff, sarr, scap := sApp("s-len", sn.T), sApp("s-off", sn.T), sApp("s-arr", sn.T), sApp("s-cap", sn.T)
	var tlen string
	var telem func(j string) string
	if isString(t.Typ) {
		tlen = sApp("slen", t.T)
		telem = func(j string) string { return sApp("sat", t.T, j) }
	} else {
		tn := vc.namedVal("app_t", t)
		tlen = sApp("s-len", tn.T)
		tarr := sApp("select", E, sApp("s-arr", tn.T))
		telem = func(j string) string { return sApp("select", tarr, sApp("+", sApp("s-off", tn.T), j)) }
	}
	n := vc.def("app_n", "Int", sApp("+", slen, tlen))
	fits := vc.def("app_fits", "Bool", sApp("<=", n, scap))
	newref := vc.newRef(&fr.heap, "new_append")
	newcap := vc.free("app_cap", "Int")
	vc.setRng(newcap, sApp("<=", n, newcap))
	oldArr := sApp("select", E, sarr)
	var fitArr, growArr string
	clen := t.CLen - 1
	if t.CLen > 0 && clen <= 16 {
		fitArr = oldArr
		for j := int64(0); j < clen; j++ {
			fitArr = sApp("store", fitArr, sApp("+", soff, slen, sInt(j)), telem(sInt(j)))
		}
		g := vc.free("app_grow", "(Array Int "+es+")")
		vc.assume(fr.curReach, fmt.Sprintf("(forall ((i Int)) (! (=> (and (<= 0 i) (< i %s)) (= (select %s i) (select %s (+ %s i)))) :pattern ((select %s i))))", slen, g, oldArr, soff, g), "append copies prefix")
		growArr = g
		for j := int64(0); j < clen; j++ {
			growArr = sApp("store", growArr, sApp("+", slen, sInt(j)), telem(sInt(j)))
		}
	} else {
		f := vc.free("app_fit", "(Array Int "+es+")")
		vc.assume(fr.curReach, fmt.Sprintf("(forall ((i Int)) (! (= (select %s i) (ite (and (<= (+ %s %s) i) (< i (+ %s %s))) %s (select %s i))) :pattern ((select %s i))))",
			f, soff, slen, soff, n, telem(sApp("-", "i", sApp("+", soff, slen))), oldArr, f), "append in place")
		fitArr = f
		g := vc.free("app_grow", "(Array Int "+es+")")
		vc.assume(fr.curReach, fmt.Sprintf("(forall ((i Int)) (! (=> (and (<= 0 i) (< i %s)) (= (select %s i) (ite (< i %s) (select %s (+ %s i)) %s))) :pattern ((select %s i))))",
			n, g, slen, oldArr, soff, telem(sApp("-", "i", slen)), g), "append grown")
		growArr = g
	}
	vc.hset(&fr.heap, mapName, sIte(fits, sApp("store", E, sarr, fitArr), sApp("store", E, newref, growArr)))
	r := Val{T: sIte(fits, sApp("mk-slice", sarr, soff, n, scap), sApp("mk-slice", newref, "0", n, newcap)), Typ: resT}
	return vc.namedVal("append", r)
}

func (fr *Frame) doCopy(args []Val, resT types.Type) Val {
	vc := fr.vc
	d, s := args[0], args[1]
	if _, ok := d.Typ.Underlying().(*types.Slice); !ok {
		return vc.freshVal("copy", resT, fr.heap)
	}
	mapName, el := fr.sliceElems(d)
	es := vc.sortOf(el)
	E := vc.hget(fr.heap, mapName)
	dn := vc.namedVal("cp_d", d)
	dlen, doff, darr := sApp("s-len", dn.T), sApp("s-off", dn.T), sApp("s-arr", dn.T)
	var slen string
	var selem func(j string) string
	if isString(s.Typ) {
		slen = sApp("slen", s.T)
		selem = func(j string) string { return sApp("sat", s.T, j) }
	} else {
		sn := vc.namedVal("cp_s", s)
		slen = sApp("s-len", sn.T)
		sarr := sApp("select", E, sApp("s-arr", sn.T))
		selem = func(j string) string { return sApp("select", sarr, sApp("+", sApp("s-off", sn.T), j)) }
	}
	n := vc.def("cp_n", "Int", sIte(sApp("<=", dlen, slen), dlen, slen))
	oldArr := sApp("select", E, darr)
	na := vc.free("cp_arr", "(Array Int "+es+")")
	vc.assume(fr.curReach, fmt.Sprintf("(forall ((i Int)) (! (= (select %s i) (ite (and (<= %s i) (< i (+ %s %s))) %s (select %s i))) :pattern ((select %s i))))",
		na, doff, doff, n, selem(sApp("-", "i", doff)), oldArr, na), "copy")
	vc.hset(&fr.heap, mapName, sIte(sApp(">", n, "0"), sApp("store", E, darr, na), E))
	return Val{T: n, Typ: resT}
}

// ---------------------------------------------------------------- natively modelled functions

var nativeSet = map[string]bool{
	"(*sync.Mutex).Lock": true, "(*sync.Mutex).Unlock": true, "(*sync.Mutex).TryLock": true,
	"(*sync.RWMutex).Lock": true, "(*sync.RWMutex).Unlock": true, "(*sync.RWMutex).RLock": true, "(*sync.RWMutex).RUnlock": true,
	"errors.New": true, "fmt.Errorf": true,
	"(*sync.WaitGroup).Add": true, "(*sync.WaitGroup).Done": true, "(*sync.WaitGroup).Wait": true,
	"runtime.Gosched": true, "time.Sleep": true,
}

func nativeExternal(name string) bool {
	if nativeSet[name] {
		return true
	}
	if strings.HasPrefix(name, "sync/atomic.") {
		return true
	}
	return false
}

func nativeMods(e *Engine, name string, call *ssa.CallCommon, ms *ModSet) {
	if strings.HasPrefix(name, "sync/atomic.") && len(call.Args) > 0 {
		short := strings.TrimPrefix(name, "sync/atomic.")
		if strings.HasPrefix(short, "Load") {
			return
		}
		e.storeMaps(call.Args[0], ms)
	}
}

func (fr *Frame) native(name string, f *ssa.Function, args []Val, resT types.Type, pos token.Pos) Val {
	vc := fr.vc
	switch name {
	case "errors.New", "fmt.Errorf":
		r := vc.freshVal("err", resT, fr.heap)
		vc.setRng(r.T, sNot(sEq(sApp("i-tag", r.T), "0")))
		return r
	}
	if strings.HasPrefix(name, "sync/atomic.") {
		short := strings.TrimPrefix(name, "sync/atomic.")
		if len(args) == 0 {
			return vc.freshVal("atomic", resT, fr.heap)
		}
		addr := args[0]
		pt, ok := addr.Typ.Underlying().(*types.Pointer)
		if !ok {
			return vc.freshVal("atomic", resT, fr.heap)
		}
		el := pt.Elem()
		switch {
		case strings.HasPrefix(short, "Load"):
			return fr.load(addr, pos, "atomic_load")
		case strings.HasPrefix(short, "Store"):
			fr.store(addr, args[1], pos)
			return Val{}
		case strings.HasPrefix(short, "Add"):
			old := fr.load(addr, pos, "atomic_old")
			nv := vc.binop(token.ADD, old, args[1], el, fr, pos)
			nv = vc.namedVal("atomic_new", nv)
			fr.store(addr, nv, pos)
			return nv
		case strings.HasPrefix(short, "CompareAndSwap"):
			old := fr.load(addr, pos, "atomic_old")
			ok := vc.def("cas_ok", "Bool", sEq(old.T, args[1].T))
			fr.store(addr, Val{T: sIte(ok, args[2].T, old.T), Typ: el}, pos)
			return Val{T: ok, Typ: resT}
		case strings.HasPrefix(short, "Swap"):
			old := fr.load(addr, pos, "atomic_old")
			fr.store(addr, args[1], pos)
			return old
		}
	}
	if resT == nil {
		return Val{}
	}
	if tup, ok := resT.(*types.Tuple); ok && tup.Len() == 0 {
		return Val{}
	}
	return vc.freshVal("nat", resT, fr.heap)
}

// path counters of executed calls, kept in the heap so that they merge at joins: calls(Name) in specs
func (fr *Frame) countCall(short string) {
	vc := fr.vc
	if strings.Contains(short, ".") {
		if fr.qualOrd == nil {
			fr.qualOrd = map[string]int{}
		}
		fr.qualOrd[short]++
	}
	if vc.lastNames[short] {
		// lastcall(Name): position of the most recent call on the path, by a path-wide event counter
		vc.mapSort("$calls_$tick", "Int")
		ln := "$calls_$last_" + strings.ReplaceAll(short, ".", "__")
		vc.mapSort(ln, "Int")
		t := sApp("+", vc.hget(fr.heap, "$calls_$tick"), "1")
		vc.hset(&fr.heap, "$calls_$tick", t)
		vc.hset(&fr.heap, ln, t)
	}
	if !vc.countNames[short] {
		return
	}
	name := "$calls_" + strings.ReplaceAll(short, ".", "__")
	vc.mapSort(name, "Int")
	cur := vc.hget(fr.heap, name)
	vc.hset(&fr.heap, name, sApp("+", cur, "1"))
}

// ---------------------------------------------------------------- object-level frames of the function under verification

func (vc *VC) frameCheck(fr *Frame, m, obj string, pos token.Pos) {
	allowed, restricted := vc.frameObj[m]
	if !restricted || vc.frameWhole[m] {
		return
	}
	var cs []string
	for _, a := range allowed {
		cs = append(cs, sEq(obj, a))
	}
	cs = append(cs, sApp(">=", obj, vc.alloc(vc.heap0))) // memory allocated by this activation
	vc.frameN++
	name := fmt.Sprintf("%s/frame-obj/%s#%d", fnName(vc.top), m, vc.frameN)
	reach := "true"
	if fr != nil {
		reach = fr.curReach
	}
	vc.oblige("frame-obj", name, nil, reach, sOr(cs...), vc.top, pos, "store to "+m+" outside the declared objects")
}

func (vc *VC) frameCheckWhole(fr *Frame, m string, pos token.Pos, callee string) {
	if _, restricted := vc.frameObj[m]; !restricted || vc.frameWhole[m] {
		return
	}
	vc.frameN++
	name := fmt.Sprintf("%s/frame-obj/%s#%d", fnName(vc.top), m, vc.frameN)
	vc.oblige("frame-obj", name, nil, fr.curReach, "false", vc.top, pos, "callee "+callee+" may modify "+m+" of any object")
}

func (vc *VC) frameCheckAll(fr *Frame, except []string, pos token.Pos, callee string) {
	for m := range vc.frameObj {
		if vc.frameWhole[m] || matchPreserve(except, m) {
			continue
		}
		vc.frameCheckWhole(fr, m, pos, callee)
	}
}

// the pre-call heap is only needed by "after" site clauses of the function under verification
func (fr *Frame) snapshotPreCall() {
	if fr.contract == nil {
		return
	}
	for _, sc := range fr.contract.Sites {
		if sc.When == "after" {
			fr.preCall = fr.heap.clone()
			return
		}
	}
}

// ---- `pure` externals: the result is a deterministic function of the argument values (strings built by formatting and
// joining): result == pure_<callee>_<sorts>(args...), the same uninterpreted function a specification reaches by writing the
// call (spec.go). A variadic tail is expanded into the values boxed into it when it is the usual fresh array filled in place.

func pureFunName(key string, sorts []string) (string, bool) {
	var b strings.Builder
	b.WriteString("pure_")
	for _, r := range key {
		if r >= 'a' && r <= 'z' || r >= 'A' && r <= 'Z' || r >= '0' && r <= '9' {
			b.WriteRune(r)
		} else {
			b.WriteRune('_')
		}
	}
	for _, so := range sorts {
		switch so {
		case "Str", "Int", "Bool":
			b.WriteString("_" + so)
		default:
			return "", false
		}
	}
	return b.String(), true
}

// the sort and Go type of a pure function's (first) result
func (vc *VC) pureResult(key string) (string, types.Type, bool) {
	f := vc.e.funcs[key]
	if f == nil || f.Signature.Results().Len() == 0 {
		return "", nil, false
	}
	t := f.Signature.Results().At(0).Type()
	so := vc.sortOf(t)
	if so != "Str" && so != "Int" && so != "Bool" {
		return "", nil, false
	}
	return so, t, true
}

func (vc *VC) pureApp(key string, args []Val, resSort string) (string, bool) {
	var sorts, terms []string
	for _, a := range args {
		if a.Typ == nil || a.T == "" {
			return "", false
		}
		sorts = append(sorts, vc.sortOf(a.Typ))
		terms = append(terms, a.T)
	}
	name, ok := pureFunName(key, sorts)
	if !ok || (resSort != "Str" && resSort != "Int" && resSort != "Bool") {
		return "", false
	}
	vc.declFun(name, "("+strings.Join(sorts, " ")+") "+resSort)
	if len(terms) == 0 {
		return name, true
	}
	return sApp(name, terms...), true
}

func (fr *Frame) pureArgs(call *ssa.CallCommon) ([]Val, bool) {
	sig := call.Signature()
	var out []Val
	for i, a := range call.Args {
		if sig.Variadic() && i == len(call.Args)-1 {
			if c, isC := a.(*ssa.Const); isC && c.IsNil() {
				continue
			}
			sl, ok := a.(*ssa.Slice)
			if !ok || sl.Low != nil || sl.High != nil {
				return nil, false
			}
			al, ok := sl.X.(*ssa.Alloc)
			if !ok || al.Referrers() == nil {
				return nil, false
			}
			arr, ok := al.Type().Underlying().(*types.Pointer).Elem().Underlying().(*types.Array)
			if !ok || arr.Len() > 8 {
				return nil, false
			}
			elems := make([]ssa.Value, arr.Len())
			for _, ref := range *al.Referrers() {
				ia, ok := ref.(*ssa.IndexAddr)
				if !ok {
					continue
				}
				c, ok := ia.Index.(*ssa.Const)
				if !ok || ia.Referrers() == nil {
					return nil, false
				}
				for _, r2 := range *ia.Referrers() {
					if st, ok := r2.(*ssa.Store); ok && st.Addr == ia {
						if elems[c.Int64()] != nil {
							return nil, false
						}
						elems[c.Int64()] = st.Val
					}
				}
			}
			for _, e := range elems {
				if e == nil {
					return nil, false
				}
				if mi, ok := e.(*ssa.MakeInterface); ok {
					out = append(out, fr.val(mi.X))
				} else {
					out = append(out, fr.val(e))
				}
			}
			continue
		}
		out = append(out, fr.val(a))
	}
	return out, true
}

func (fr *Frame) assumePure(key string, call *ssa.CallCommon, r Val) {
	vc := fr.vc
	// a tuple result: the first component is the function's value (the others - an error - are left open)
	if len(r.Elems) > 0 {
		r = r.Elems[0]
	}
	if r.Typ == nil || r.T == "" {
		return
	}
	so, _, ok := vc.pureResult(key)
	if !ok || so != vc.sortOf(r.Typ) {
		return
	}
	args, ok := fr.pureArgs(call)
	if !ok {
		return
	}
	app, ok := vc.pureApp(key, args, so)
	if !ok {
		return
	}
	vc.assume(fr.curReach, sEq(r.T, app), "pure "+key)
}
