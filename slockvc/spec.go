package main

// Evaluation of contract expressions (Go expression syntax + built-ins) to SMT terms.

import (
	"os"
	"fmt"
	"go/ast"
	"go/constant"
	"go/token"
	"go/types"
	"math/big"
	"strconv"
	"strings"

	"golang.org/x/tools/go/ssa"
)

type Env struct {
	vc     *VC
	names  map[string]Val
	heap   Heap
	old    Heap
	pkg    *types.Package
	fr     *Frame
	at     *ssa.BasicBlock
	atEnd  bool
	over   map[ssa.Value]Val
	result Val
	reach  string
	depth  int
	sec    Heap // heap at the start of the current critical section (atsection(e))
	lhead  Heap // heap at the start of the current loop iteration (athead(e), back-edge clauses only)
	lheadBlk *ssa.BasicBlock // the loop head of a back-edge clause
	inHead bool // evaluating inside athead(): loop variables denote their value at the start of the iteration
	pre    Heap // heap just before the call of an "after" site clause (before(e))
	post   Heap // ghost effects of a contract only: the heap when the callee returns (after(e))
	quant  int  // nesting depth of quantifiers (bound variables in scope)
	maxOrd int  // evaluation happens in the middle of block 'at': later bindings are invisible
}

var mathInt = types.Typ[types.Int]

func mathVal(t string) Val { return Val{T: t, Typ: mathInt, Math: true} }
func boolVal(t string) Val { return Val{T: t, Typ: types.Typ[types.Bool]} }

func (fr *Frame) envAt(b *ssa.BasicBlock, atEnd bool, over map[ssa.Value]Val) *Env {
	var pkg *types.Package
	if fr.fn.Pkg != nil {
		pkg = fr.fn.Pkg.Pkg
	} else if fr.fn.Parent() != nil && fr.fn.Parent().Pkg != nil {
		pkg = fr.fn.Parent().Pkg.Pkg
	}
	return &Env{vc: fr.vc, names: map[string]Val{}, heap: fr.heap, old: fr.oldHeap, pkg: pkg, fr: fr, at: b, atEnd: atEnd, over: over, reach: fr.curReach}
}

func (env *Env) sub() *Env {
	n := *env
	n.names = map[string]Val{}
	for k, v := range env.names {
		n.names[k] = v
	}
	return &n
}

func (env *Env) evalBool(e ast.Expr) (string, error) {
	v, err := env.eval(e)
	if err != nil {
		return "", err
	}
	if v.Typ == nil || !isBool(v.Typ) {
		return "", fmt.Errorf("expression is not boolean: %s", exprStr(e))
	}
	return v.T, nil
}

func exprStr(e ast.Expr) string {
	var b strings.Builder
	writeExpr(&b, e)
	return b.String()
}

func writeExpr(b *strings.Builder, e ast.Expr) {
	switch x := e.(type) {
	case *ast.Ident:
		b.WriteString(x.Name)
	case *ast.BasicLit:
		b.WriteString(x.Value)
	case *ast.SelectorExpr:
		writeExpr(b, x.X)
		b.WriteString("." + x.Sel.Name)
	case *ast.CallExpr:
		writeExpr(b, x.Fun)
		b.WriteString("(")
		for i, a := range x.Args {
			if i > 0 {
				b.WriteString(", ")
			}
			writeExpr(b, a)
		}
		b.WriteString(")")
	case *ast.BinaryExpr:
		writeExpr(b, x.X)
		b.WriteString(" " + x.Op.String() + " ")
		writeExpr(b, x.Y)
	case *ast.UnaryExpr:
		b.WriteString(x.Op.String())
		writeExpr(b, x.X)
	case *ast.ParenExpr:
		b.WriteString("(")
		writeExpr(b, x.X)
		b.WriteString(")")
	case *ast.IndexExpr:
		writeExpr(b, x.X)
		b.WriteString("[")
		writeExpr(b, x.Index)
		b.WriteString("]")
	case *ast.StarExpr:
		b.WriteString("*")
		writeExpr(b, x.X)
	default:
		fmt.Fprintf(b, "<%T>", e)
	}
}

// pkgVarNamed: sv is the SSA value that debug information attaches to the identifier; when that value is a
// load of the package-level variable of the same name, the specification means the variable itself
func (env *Env) pkgVarNamed(name string, sv ssa.Value) (Val, bool) {
	if env.pkg == nil {
		return Val{}, false
	}
	if _, isVar := env.pkg.Scope().Lookup(name).(*types.Var); !isVar {
		return Val{}, false
	}
	var inner ssa.Value = sv
	if u, ok := sv.(undefinedHere); ok {
		inner = u.Value
	}
	if un, ok := inner.(*ssa.UnOp); ok && un.Op == token.MUL {
		if g, ok := un.X.(*ssa.Global); ok && g.Name() == name {
			return env.lookupPkgObj(env.pkg, name)
		}
	}
	return Val{}, false
}

func (env *Env) lookupPkgObj(pkg *types.Package, name string) (Val, bool) {
	if pkg == nil {
		return Val{}, false
	}
	obj := pkg.Scope().Lookup(name)
	if obj == nil {
		return Val{}, false
	}
	switch o := obj.(type) {
	case *types.Const:
		return env.constVal(o.Val(), o.Type())
	case *types.Var:
		// package-level variable: cell
		for _, sp := range env.vc.e.spkgs {
			if sp != nil && sp.Pkg == pkg {
				if g, ok := sp.Members[name].(*ssa.Global); ok {
					gv := env.vc.globalVal(g)
					el := g.Type().(*types.Pointer).Elem()
					if gv.Loc != nil {
						r := Val{T: env.vc.loadLoc(env.heap, gv.Loc), Typ: el}
						env.vc.attachPtrLoc(&r)
						return r, true
					}
					return Val{T: gv.T, Typ: g.Type()}, true
				}
			}
		}
	}
	return Val{}, false
}

func (env *Env) constVal(cv constant.Value, t types.Type) (Val, bool) {
	switch cv.Kind() {
	case constant.Int:
		bi, _ := new(big.Int).SetString(cv.ExactString(), 10)
		v := mathVal(sBig(bi))
		if bi.Sign() >= 0 {
			v.Mask = bi
		}
		return v, true
	case constant.Bool:
		if constant.BoolVal(cv) {
			return boolVal("true"), true
		}
		return boolVal("false"), true
	case constant.String:
		return Val{T: env.vc.strLit(constant.StringVal(cv)), Typ: types.Typ[types.String]}, true
	}
	return Val{}, false
}

func (env *Env) findPkg(name string) *types.Package {
	if p, ok := env.vc.e.pkgs[name]; ok {
		return p.Types
	}
	if env.pkg != nil {
		for _, imp := range env.pkg.Imports() {
			if imp.Name() == name {
				return imp
			}
		}
	}
	return nil
}

func (env *Env) lookupType(e ast.Expr) types.Type {
	switch x := e.(type) {
	case *ast.Ident:
		if env.pkg != nil {
			if tn, ok := env.pkg.Scope().Lookup(x.Name).(*types.TypeName); ok {
				return tn.Type()
			}
		}
		if tn, ok := types.Universe.Lookup(x.Name).(*types.TypeName); ok {
			return tn.Type()
		}
	case *ast.SelectorExpr:
		if id, ok := x.X.(*ast.Ident); ok {
			if p := env.findPkg(id.Name); p != nil {
				if tn, ok := p.Scope().Lookup(x.Sel.Name).(*types.TypeName); ok {
					return tn.Type()
				}
			}
		}
	case *ast.StarExpr:
		if t := env.lookupType(x.X); t != nil {
			return types.NewPointer(t)
		}
	case *ast.ParenExpr:
		return env.lookupType(x.X)
	case *ast.ArrayType:
		if t := env.lookupType(x.Elt); t != nil {
			if x.Len == nil {
				return types.NewSlice(t)
			}
			if bl, ok := x.Len.(*ast.BasicLit); ok {
				if n, err := strconv.ParseInt(bl.Value, 0, 64); err == nil {
					return types.NewArray(t, n)
				}
			}
		}
	}
	return nil
}

func (env *Env) ident(name string) (Val, error) {
	if v, ok := env.names[name]; ok {
		return v, nil
	}
	switch name {
	case "true":
		return boolVal("true"), nil
	case "false":
		return boolVal("false"), nil
	case "nil":
		return Val{T: "0", Typ: types.Typ[types.UntypedNil]}, nil
	case "result":
		// where no return value exists (site clauses, pre-conditions) the name may denote a parameter called result
		if env.result.T != "" || env.result.Elems != nil {
			return env.result, nil
		}
	}
	if strings.HasPrefix(name, "result") {
		if i, err := strconv.Atoi(name[6:]); err == nil && i < len(env.result.Elems) {
			return env.result.Elems[i], nil
		}
		if name == "result0" && env.result.T != "" {
			return env.result, nil // a single result, for functions that have a parameter called result
		}
	}
	if env.inHead && env.lheadBlk != nil && env.fr != nil {
		// inside athead(): a loop variable (phi of the loop head) has the value the iteration started with
		for _, in := range env.lheadBlk.Instrs {
			ph, ok := in.(*ssa.Phi)
			if !ok {
				break
			}
			if ph.Comment == name {
				if v, ok := env.fr.vals[ph]; ok {
					return v, nil
				}
			}
		}
	}
	if env.fr != nil && env.at != nil {
		if sv, isAddr, ok := env.fr.lookupNameAt(name, env.at, env.atEnd, env.maxOrd); ok {
			var v Val
			// a name that denotes a package-level variable reads the variable, wherever the body happens to load it
			if g, isG := env.pkgVarNamed(name, sv); isG {
				return g, nil
			}
			if u, isUndef := sv.(undefinedHere); isUndef {
				v = env.vc.freshVal("undef_"+name, u.Value.Type(), env.heap)
			} else if ov, ok := env.over[sv]; ok {
				v = ov
			} else if _, isParam := sv.(*ssa.Parameter); isParam {
				v = env.fr.val(sv)
			} else if vv, ok := env.fr.vals[sv]; ok {
				v = vv
			} else if _, isC := sv.(*ssa.Const); isC {
				v = env.fr.val(sv)
			} else {
				// not defined on this path: an arbitrary value (the clause must hold for every value)
				v = vc0(env).freshVal("undef_"+name, sv.Type(), env.heap)
			}
			if isAddr {
				pt, ok := v.Typ.Underlying().(*types.Pointer)
				if ok && v.Loc != nil {
					r := Val{T: env.vc.loadLoc(env.heap, v.Loc), Typ: pt.Elem()}
					env.vc.attachPtrLoc(&r)
					return r, nil
				}
				if ok {
					if _, isStruct := pt.Elem().Underlying().(*types.Struct); isStruct {
						return v, nil // address-taken struct local: use as pointer
					}
				}
			}
			return v, nil
		}
	}
	if v, ok := env.lookupPkgObj(env.pkg, name); ok {
		return v, nil
	}
	return Val{}, fmt.Errorf("unknown identifier %s", name)
}

func (env *Env) fieldOf(base Val, name string) (Val, error) {
	vc := env.vc
	t := base.Typ
	if t == nil {
		return Val{}, fmt.Errorf("untyped value has no field %s", name)
	}
	isPtr := false
	if pt, ok := t.Underlying().(*types.Pointer); ok {
		t = pt.Elem()
		isPtr = true
	}
	if _, ok := t.Underlying().(*types.Struct); !ok {
		return Val{}, fmt.Errorf("type %s has no fields (selecting %s)", t, name)
	}
	obj, path, _ := types.LookupFieldOrMethod(t, true, env.pkg, name)
	if obj == nil {
		// unexported field of another package
		for _, p := range vc.e.pkgs {
			if o, pa, _ := types.LookupFieldOrMethod(t, true, p.Types, name); o != nil {
				obj, path = o, pa
				break
			}
		}
	}
	if _, ok := obj.(*types.Var); !ok || obj == nil {
		return Val{}, fmt.Errorf("no field %s in %s", name, t)
	}
	cur := base
	curT := t
	for _, idx := range path {
		st := curT.Underlying().(*types.Struct)
		ft := st.Field(idx).Type()
		if isPtr {
			var loc *Loc
			if cur.Loc != nil && cur.Loc.Kind != locCell {
				loc = &Loc{Kind: locSub, Parent: cur.Loc, Field: idx, SI: vc.structInfoOf(curT), Typ: ft}
			} else {
				loc = vc.fieldLoc(curT, idx, cur.T)
			}
			if _, isStruct := ft.Underlying().(*types.Struct); isStruct {
				// stay in "pointer" mode with an interior location
				cur = Val{Typ: types.NewPointer(ft), Loc: loc}
				curT = ft
				continue
			}
			cur = Val{T: vc.loadLoc(env.heap, loc), Typ: ft}
			isPtr = false
		} else {
			si := vc.structInfoOf(curT)
			cur = Val{T: sApp(si.fields[idx], cur.T), Typ: ft}
		}
		curT = ft
		if pt, ok := ft.Underlying().(*types.Pointer); ok {
			curT = pt.Elem()
			isPtr = true
		}
	}
	if cur.T == "" && cur.Loc != nil {
		// struct-valued field reached through pointer: materialise value
		cur = Val{T: vc.loadLoc(env.heap, cur.Loc), Typ: cur.Typ.Underlying().(*types.Pointer).Elem()}
	}
	if env.quant == 0 && cur.T != "" && cur.Loc == nil && os.Getenv("NOSF") == "" {
		_, isSlice := cur.Typ.Underlying().(*types.Slice)
		if _, isInt := intInfo(cur.Typ); isInt || isRefLike(cur.Typ) || isSlice || types.IsInterface(cur.Typ) {
			nv := vc.namedVal("sf_"+name, cur)
			vc.setRng(nv.T, vc.wf(nv.T, cur.Typ, ""))
			cur = nv
		}
	}
	vc.attachPtrLoc(&cur)
	if k, ok := intInfo(cur.Typ); ok && !k.signed {
		cur.Mask = maskOfType(k)
	}
	return cur, nil
}

func (env *Env) index(base, idx Val) (Val, error) {
	vc := env.vc
	if base.Typ == nil {
		return Val{}, fmt.Errorf("cannot index untyped value")
	}
	switch t := base.Typ.Underlying().(type) {
	case *types.Slice:
		l := vc.elemLoc(t.Elem(), sApp("s-arr", base.T), sApp("+", sApp("s-off", base.T), idx.T))
		r := Val{T: vc.loadLoc(env.heap, l), Typ: t.Elem()}
		vc.attachPtrLoc(&r)
		return r, nil
	case *types.Array:
		return Val{T: sApp("select", base.T, idx.T), Typ: t.Elem()}, nil
	case *types.Pointer:
		if at, ok := t.Elem().Underlying().(*types.Array); ok {
			if base.Loc != nil && base.Loc.Kind != locCell {
				return Val{T: sApp("select", vc.loadLoc(env.heap, base.Loc), idx.T), Typ: at.Elem()}, nil
			}
			l := vc.elemLoc(at.Elem(), base.T, idx.T)
			return Val{T: vc.loadLoc(env.heap, l), Typ: at.Elem()}, nil
		}
	case *types.Basic:
		if isString(base.Typ) {
			return Val{T: sApp("sat", base.T, idx.T), Typ: types.Typ[types.Uint8]}, nil
		}
	case *types.Map:
		hm, vm := vc.mapHeaps(t)
		k := vc.keyTerm(idx, t.Key())
		has := sAnd(sNot(sEq(base.T, "0")), sApp("select", sApp("select", vc.hget(env.heap, hm), base.T), k))
		raw := sApp("select", sApp("select", vc.hget(env.heap, vm), base.T), k)
		r := Val{T: sIte(has, raw, vc.zeroOf(t.Elem())), Typ: t.Elem()}
		vc.attachPtrLoc(&r)
		return r, nil
	}
	return Val{}, fmt.Errorf("cannot index %s", base.Typ)
}

func (env *Env) eval(e ast.Expr) (Val, error) {
	vc := env.vc
	switch x := e.(type) {
	case *ast.ParenExpr:
		return env.eval(x.X)
	case *ast.Ident:
		return env.ident(x.Name)
	case *ast.BasicLit:
		switch x.Kind {
		case token.INT:
			bi, ok := new(big.Int).SetString(x.Value, 0)
			if !ok {
				return Val{}, fmt.Errorf("bad int literal %s", x.Value)
			}
			v := mathVal(sBig(bi))
			v.Mask = bi
			return v, nil
		case token.STRING:
			s, err := strconv.Unquote(x.Value)
			if err != nil {
				return Val{}, err
			}
			return Val{T: vc.strLit(s), Typ: types.Typ[types.String]}, nil
		case token.CHAR:
			s, err := strconv.Unquote(x.Value)
			if err != nil || len(s) == 0 {
				return Val{}, fmt.Errorf("bad char literal")
			}
			return mathVal(sInt(int64([]rune(s)[0]))), nil
		}
		return Val{}, fmt.Errorf("unsupported literal %s", x.Value)
	case *ast.SelectorExpr:
		if id, ok := x.X.(*ast.Ident); ok {
			if _, bound := env.names[id.Name]; !bound {
				if id.Name == "ghost" {
					return Val{T: "ghost:" + x.Sel.Name}, nil
				}
				isLocal := false
				if env.fr != nil && env.at != nil {
					_, _, isLocal = env.fr.lookupName(id.Name, env.at, env.atEnd)
				}
				if !isLocal {
					if p := env.findPkg(id.Name); p != nil {
						if v, ok := env.lookupPkgObj(p, x.Sel.Name); ok {
							return v, nil
						}
						return Val{}, fmt.Errorf("unknown %s.%s", id.Name, x.Sel.Name)
					}
				}
			}
		}
		base, err := env.eval(x.X)
		if err != nil {
			return Val{}, err
		}
		return env.fieldOf(base, x.Sel.Name)
	case *ast.IndexExpr:
		base, err := env.eval(x.X)
		if err != nil {
			return Val{}, err
		}
		idx, err := env.eval(x.Index)
		if err != nil {
			return Val{}, err
		}
		if strings.HasPrefix(base.T, "ghost:") || strings.HasPrefix(base.T, "ghostold:") || strings.HasPrefix(base.T, "ghostpre:") {
			// ghost.name[idx]; old(ghost.name)[idx] and before(ghost.name)[idx] read the earlier map at the current index
			gh := env.heap
			gname := strings.TrimPrefix(base.T, "ghost:")
			if strings.HasPrefix(base.T, "ghostold:") {
				gh = env.old
				gname = strings.TrimPrefix(base.T, "ghostold:")
			} else if strings.HasPrefix(base.T, "ghostpre:") {
				gh = env.pre
				gname = strings.TrimPrefix(base.T, "ghostpre:")
			}
			gm := vc.ghostMap(gname)
			srt := "Int"
			if g, ok := vc.e.ghosts[gname]; ok {
				srt = g.Sort
			}
			r := Val{T: sApp("select", vc.hget(gh, gm), idx.T), Typ: mathInt, Math: true}
			if srt == "Bool" {
				r.Typ = types.Typ[types.Bool]
				r.Math = false
			}
			return r, nil
		}
		return env.index(base, idx)
	case *ast.SliceExpr:
		// s[lo:hi] of a string or a slice (the code's own slicing carries the bounds obligation; here only the value)
		base, err := env.eval(x.X)
		if err != nil {
			return Val{}, err
		}
		lo := "0"
		if x.Low != nil {
			v, err := env.eval(x.Low)
			if err != nil {
				return Val{}, err
			}
			lo = v.T
		}
		if base.Typ == nil {
			return Val{}, fmt.Errorf("slice expression on untyped value")
		}
		switch base.Typ.Underlying().(type) {
		case *types.Basic:
			hi := sApp("slen", base.T)
			if x.High != nil {
				v, err := env.eval(x.High)
				if err != nil {
					return Val{}, err
				}
				hi = v.T
			}
			return Val{T: sApp("ssub", base.T, lo, hi), Typ: base.Typ}, nil
		case *types.Slice:
			hi := sApp("s-len", base.T)
			if x.High != nil {
				v, err := env.eval(x.High)
				if err != nil {
					return Val{}, err
				}
				hi = v.T
			}
			return Val{T: sApp("mk-slice", sApp("s-arr", base.T), sApp("+", sApp("s-off", base.T), lo), sApp("-", hi, lo), sApp("-", sApp("s-cap", base.T), lo)), Typ: base.Typ}, nil
		}
		return Val{}, fmt.Errorf("slice expression on %s", base.Typ)
	case *ast.StarExpr:
		base, err := env.eval(x.X)
		if err != nil {
			return Val{}, err
		}
		pt, ok := base.Typ.Underlying().(*types.Pointer)
		if !ok {
			return Val{}, fmt.Errorf("deref of non-pointer")
		}
		if base.Loc != nil {
			return Val{T: vc.loadLoc(env.heap, base.Loc), Typ: pt.Elem()}, nil
		}
		if _, isStruct := pt.Elem().Underlying().(*types.Struct); isStruct {
			return Val{T: vc.loadStruct(env.heap, pt.Elem(), base.T), Typ: pt.Elem()}, nil
		}
		if at, isArr := pt.Elem().Underlying().(*types.Array); isArr {
			l := vc.elemLoc(at.Elem(), base.T, "0")
			return Val{T: sApp("select", vc.hget(env.heap, l.Map), base.T), Typ: pt.Elem()}, nil
		}
		return Val{T: vc.loadLoc(env.heap, vc.cellLoc(pt.Elem(), base.T)), Typ: pt.Elem()}, nil
	case *ast.UnaryExpr:
		v, err := env.eval(x.X)
		if err != nil {
			return Val{}, err
		}
		switch x.Op {
		case token.NOT:
			return boolVal(sNot(v.T)), nil
		case token.SUB:
			return mathVal(sApp("-", "0", v.T)), nil
		case token.ADD:
			return v, nil
		}
		return Val{}, fmt.Errorf("unsupported unary %s", x.Op)
	case *ast.BinaryExpr:
		return env.binary(x)
	case *ast.CallExpr:
		return env.call(x)
	}
	return Val{}, fmt.Errorf("unsupported expression %T", e)
}

func isNilVal(v Val) bool {
	if b, ok := v.Typ.(*types.Basic); ok && b.Kind() == types.UntypedNil {
		return true
	}
	return false
}

func (env *Env) nilCompare(v Val) (string, error) {
	switch v.Typ.Underlying().(type) {
	case *types.Slice:
		return sEq(sApp("s-arr", v.T), "0"), nil
	case *types.Interface:
		return sEq(sApp("i-tag", v.T), "0"), nil
	case *types.Pointer, *types.Map, *types.Chan, *types.Signature:
		if v.Loc != nil && v.Loc.Kind != locCell {
			return "false", nil
		}
		return sEq(v.T, "0"), nil
	}
	if _, isStruct := v.Typ.Underlying().(*types.Struct); isStruct {
		// a struct embedded by value, named where a specification function expects a pointer to it: never nil
		return "false", nil
	}
	return "", fmt.Errorf("cannot compare %s with nil", v.Typ)
}

func (env *Env) binary(x *ast.BinaryExpr) (Val, error) {
	vc := env.vc
	a, err := env.eval(x.X)
	if err != nil {
		return Val{}, err
	}
	if x.Op == token.LAND || x.Op == token.LOR {
		b, err := env.eval(x.Y)
		if err != nil {
			return Val{}, err
		}
		if x.Op == token.LAND {
			return boolVal(sAnd(a.T, b.T)), nil
		}
		return boolVal(sOr(a.T, b.T)), nil
	}
	b, err := env.eval(x.Y)
	if err != nil {
		return Val{}, err
	}
	switch x.Op {
	case token.EQL, token.NEQ:
		var t string
		if isNilVal(b) {
			t, err = env.nilCompare(a)
		} else if isNilVal(a) {
			t, err = env.nilCompare(b)
		} else {
			aa, bb := a, b
			if aa.Math && !bb.Math {
				aa.Typ = bb.Typ
			}
			if bb.Math && !aa.Math {
				bb.Typ = aa.Typ
			}
			t = vc.equal(aa, bb)
		}
		if err != nil {
			return Val{}, err
		}
		if x.Op == token.NEQ {
			t = sNot(t)
		}
		return boolVal(t), nil
	case token.LSS, token.LEQ, token.GTR, token.GEQ:
		m := map[token.Token]string{token.LSS: "<", token.LEQ: "<=", token.GTR: ">", token.GEQ: ">="}[x.Op]
		return boolVal(sApp(m, a.T, b.T)), nil
	case token.ADD:
		if isString(a.Typ) {
			return Val{T: sApp("sconcat", a.T, b.T), Typ: a.Typ}, nil
		}
		r := mathVal(sApp("+", a.T, b.T))
		if a.Mask != nil && b.Mask != nil && new(big.Int).And(a.Mask, b.Mask).Sign() == 0 {
			r.Mask = new(big.Int).Or(a.Mask, b.Mask)
		}
		return r, nil
	case token.SUB:
		return mathVal(sApp("-", a.T, b.T)), nil
	case token.MUL:
		return mathVal(sApp("*", a.T, b.T)), nil
	case token.QUO:
		return mathVal(sApp("div", a.T, b.T)), nil
	case token.REM:
		return mathVal(sApp("mod", a.T, b.T)), nil
	case token.SHL:
		if c, ok := litInt(b.T); ok && c.IsInt64() {
			r := mathVal(sApp("*", a.T, pow2s(int(c.Int64()))))
			if a.Mask != nil {
				r.Mask = new(big.Int).Lsh(a.Mask, uint(c.Int64()))
			}
			return r, nil
		}
		return Val{}, fmt.Errorf("shift by non-constant in spec")
	case token.SHR:
		if c, ok := litInt(b.T); ok && c.IsInt64() {
			r := mathVal(sApp("div", a.T, pow2s(int(c.Int64()))))
			if a.Mask != nil {
				r.Mask = new(big.Int).Rsh(a.Mask, uint(c.Int64()))
			}
			return r, nil
		}
		return Val{}, fmt.Errorf("shift by non-constant in spec")
	case token.AND:
		if isBool(a.Typ) {
			return boolVal(sAnd(a.T, b.T)), nil
		}
		c, ok := litInt(b.T)
		o := a
		if !ok {
			c, ok = litInt(a.T)
			o = b
		}
		if ok && c.Sign() >= 0 {
			r := mathVal(vc.andConst(o.T, intKind{64, false}, c))
			r.Mask = c
			return r, nil
		}
		return Val{}, fmt.Errorf("& needs a constant operand in spec")
	case token.OR:
		if isBool(a.Typ) {
			return boolVal(sOr(a.T, b.T)), nil
		}
		if a.Mask != nil && b.Mask != nil && new(big.Int).And(a.Mask, b.Mask).Sign() == 0 {
			r := mathVal(sApp("+", a.T, b.T))
			r.Mask = new(big.Int).Or(a.Mask, b.Mask)
			return r, nil
		}
		if c, ok := litInt(b.T); ok && c.Sign() >= 0 {
			return mathVal(sApp("-", sApp("+", a.T, b.T), vc.andConst(a.T, intKind{64, false}, c))), nil
		}
		return Val{}, fmt.Errorf("| needs disjoint or constant operands in spec")
	}
	return Val{}, fmt.Errorf("unsupported operator %s", x.Op)
}

var wrapKinds = map[string]intKind{
	"u8": {8, false}, "u16": {16, false}, "u32": {32, false}, "u64": {64, false},
	"i8": {8, true}, "i16": {16, true}, "i32": {32, true}, "i64": {64, true},
	"uint8": {8, false}, "uint16": {16, false}, "uint32": {32, false}, "uint64": {64, false}, "uint": {64, false}, "byte": {8, false},
	"int8": {8, true}, "int16": {16, true}, "int32": {32, true}, "int64": {64, true}, "int": {64, true},
}

func (env *Env) call(x *ast.CallExpr) (Val, error) {
	vc := env.vc
	fname := ""
	if id, ok := x.Fun.(*ast.Ident); ok {
		fname = id.Name
	}
	arg := func(i int) (Val, error) {
		if i >= len(x.Args) {
			return Val{}, fmt.Errorf("%s: missing argument %d", fname, i)
		}
		return env.eval(x.Args[i])
	}
	if sel, ok := x.Fun.(*ast.SelectorExpr); ok {
		if pk, ok := sel.X.(*ast.Ident); ok {
			// a call of a `pure` external (fmt.Sprintf, filepath.Join): the uninterpreted function the call sites assume
			want := pk.Name + "." + sel.Sel.Name
			for key, c := range vc.e.contracts {
				if c.PureResult && (key == want || strings.HasSuffix(key, "/"+want)) {
					var args []Val
					for i := range x.Args {
						v, err := arg(i)
						if err != nil {
							return Val{}, err
						}
						args = append(args, v)
					}
					so, rt, ok := vc.pureResult(key)
					if !ok {
						return Val{}, fmt.Errorf("%s: a pure function needs a string, integer or boolean (first) result", want)
					}
					app, ok := vc.pureApp(key, args, so)
					if !ok {
						return Val{}, fmt.Errorf("%s: only string, integer and boolean arguments are supported for pure functions", want)
					}
					return Val{T: app, Typ: rt}, nil
				}
			}
		}
	}
	switch fname {
	case "old":
		n := env.sub()
		n.heap = env.old
		r, err := n.eval(x.Args[0])
		if err == nil && strings.HasPrefix(r.T, "ghost:") {
			r.T = "ghostold:" + strings.TrimPrefix(r.T, "ghost:")
		}
		return r, err
	case "before":
		if env.pre.m == nil {
			return Val{}, fmt.Errorf("before(): only available in `at call X after ...` clauses")
		}
		n := env.sub()
		n.heap = env.pre
		r, err := n.eval(x.Args[0])
		if err == nil && strings.HasPrefix(r.T, "ghost:") {
			r.T = "ghostpre:" + strings.TrimPrefix(r.T, "ghost:")
		}
		return r, err
	case "after":
		if env.post.m == nil {
			return Val{}, fmt.Errorf("after(): only available in the ghost effects of a contract")
		}
		n := env.sub()
		n.heap = env.post
		return n.eval(x.Args[0])
	case "athead":
		if env.lhead.m == nil {
			return Val{}, fmt.Errorf("athead(): only available in `loop#N backedge` clauses")
		}
		n := env.sub()
		n.heap = env.lhead
		n.inHead = true
		return n.eval(x.Args[0])
	case "atsection":
		if env.sec.m == nil {
			return Val{}, fmt.Errorf("atsection(): no critical section has been entered on this path")
		}
		n := env.sub()
		n.heap = env.sec
		return n.eval(x.Args[0])
	case "implies":
		a, err := env.evalBool(x.Args[0])
		if err != nil {
			return Val{}, err
		}
		b, err := env.evalBool(x.Args[1])
		if err != nil {
			return Val{}, err
		}
		return boolVal(sImp(a, b)), nil
	case "iff":
		a, err := env.evalBool(x.Args[0])
		if err != nil {
			return Val{}, err
		}
		b, err := env.evalBool(x.Args[1])
		if err != nil {
			return Val{}, err
		}
		return boolVal(sEq(a, b)), nil
	case "ite":
		c, err := env.evalBool(x.Args[0])
		if err != nil {
			return Val{}, err
		}
		a, err := arg(1)
		if err != nil {
			return Val{}, err
		}
		b, err := arg(2)
		if err != nil {
			return Val{}, err
		}
		// an untyped nil branch takes the zero value of the other branch's type (nil slice, nil interface)
		isNil := func(e ast.Expr) bool { id, ok := e.(*ast.Ident); return ok && id.Name == "nil" }
		if isNil(x.Args[1]) && !isNil(x.Args[2]) && b.Typ != nil {
			a = Val{T: vc.zeroOf(b.Typ), Typ: b.Typ}
		} else if isNil(x.Args[2]) && !isNil(x.Args[1]) && a.Typ != nil {
			b = Val{T: vc.zeroOf(a.Typ), Typ: a.Typ}
		}
		r := a
		r.T = sIte(c, a.T, b.T)
		r.Loc = nil
		r.Mask = nil
		if a.Math && !b.Math {
			r.Typ = b.Typ
			r.Math = false
		}
		return r, nil
	case "forall", "exists":
		// forall(i, lo, hi, body)   or forall(i, body) (unbounded Int)
		id, ok := x.Args[0].(*ast.Ident)
		if !ok {
			return Val{}, fmt.Errorf("%s: first argument must be a variable name", fname)
		}
		vc.n++
		bv := fmt.Sprintf("%s!q%d", id.Name, vc.n)
		n := env.sub()
		n.quant++
		n.names[id.Name] = mathVal(bv)
		var rng string = "true"
		var bodyE ast.Expr
		if len(x.Args) == 4 {
			lo, err := env.eval(x.Args[1])
			if err != nil {
				return Val{}, err
			}
			hi, err := env.eval(x.Args[2])
			if err != nil {
				return Val{}, err
			}
			rng = sAnd(sApp("<=", lo.T, bv), sApp("<", bv, hi.T))
			bodyE = x.Args[3]
		} else if len(x.Args) == 2 {
			bodyE = x.Args[1]
		} else {
			return Val{}, fmt.Errorf("%s(i, lo, hi, body)", fname)
		}
		body, err := n.evalBool(bodyE)
		if err != nil {
			return Val{}, err
		}
		if fname == "forall" {
			var parts []string
			for _, rb := range shiftIndexVar(bv, rng, body) {
				parts = append(parts, fmt.Sprintf("(forall ((%s Int)) %s)", bv, sImp(rb[0], rb[1])))
			}
			return boolVal(sAnd(parts...)), nil
		}
		return boolVal(fmt.Sprintf("(exists ((%s Int)) %s)", bv, sAnd(rng, body))), nil
	case "forallref":
		// forallref(x, T, body): x ranges over references to T
		id, ok := x.Args[0].(*ast.Ident)
		if !ok || len(x.Args) != 3 {
			return Val{}, fmt.Errorf("forallref(x, T, body)")
		}
		t := env.lookupType(x.Args[1])
		if t == nil {
			return Val{}, fmt.Errorf("forallref: unknown type %s", exprStr(x.Args[1]))
		}
		vc.n++
		bv := fmt.Sprintf("%s!q%d", id.Name, vc.n)
		n := env.sub()
		n.quant++
		n.names[id.Name] = Val{T: bv, Typ: types.NewPointer(t)}
		body, err := n.evalBool(x.Args[2])
		if err != nil {
			return Val{}, err
		}
		return boolVal(fmt.Sprintf("(forall ((%s Int)) %s)", bv, vc.withPatterns(bv, sImp(sNot(sEq(bv, "0")), body)))), nil
	case "len":
		a, err := arg(0)
		if err != nil {
			return Val{}, err
		}
		switch t := a.Typ.Underlying().(type) {
		case *types.Slice:
			return mathVal(sApp("s-len", a.T)), nil
		case *types.Basic:
			return mathVal(sApp("slen", a.T)), nil
		case *types.Array:
			return mathVal(sInt(t.Len())), nil
		}
		return Val{}, fmt.Errorf("len of %s", a.Typ)
	case "cap":
		a, err := arg(0)
		if err != nil {
			return Val{}, err
		}
		return mathVal(sApp("s-cap", a.T)), nil
	case "arr", "off":
		a, err := arg(0)
		if err != nil {
			return Val{}, err
		}
		return mathVal(sApp("s-"+fname, a.T)), nil
	case "has":
		m, err := arg(0)
		if err != nil {
			return Val{}, err
		}
		k, err := arg(1)
		if err != nil {
			return Val{}, err
		}
		mt, ok := m.Typ.Underlying().(*types.Map)
		if !ok {
			return Val{}, fmt.Errorf("has(m,k): not a map")
		}
		hm, _ := vc.mapHeaps(mt)
		return boolVal(sAnd(sNot(sEq(m.T, "0")), sApp("select", sApp("select", vc.hget(env.heap, hm), m.T), vc.keyTerm(k, mt.Key())))), nil
	case "isnil":
		a, err := arg(0)
		if err != nil {
			return Val{}, err
		}
		t, err := env.nilCompare(a)
		return boolVal(t), err
	case "min", "max":
		a, err := arg(0)
		if err != nil {
			return Val{}, err
		}
		b, err := arg(1)
		if err != nil {
			return Val{}, err
		}
		op := "<="
		if fname == "max" {
			op = ">="
		}
		return mathVal(sIte(sApp(op, a.T, b.T), a.T, b.T)), nil
	case "abs":
		a, err := arg(0)
		if err != nil {
			return Val{}, err
		}
		return mathVal(sIte(sApp(">=", a.T, "0"), a.T, sApp("-", "0", a.T))), nil
	case "fresh":
		a, err := arg(0)
		if err != nil {
			return Val{}, err
		}
		return boolVal(sAnd(sApp(">=", a.T, vc.alloc(env.old)), sApp("<", a.T, vc.alloc(env.heap)))), nil
	case "chancap":
		// chancap(c): the capacity the channel c was made with
		a, err := arg(0)
		if err != nil {
			return Val{}, err
		}
		vc.declFun("chancap", "(Int) Int")
		return Val{T: sApp("chancap", a.T), Typ: types.Typ[types.Int]}, nil
	case "allocated":
		// allocated(x): the pointer (or the backing array of the slice) x is below the allocation frontier of the current state
		a, err := arg(0)
		if err != nil {
			return Val{}, err
		}
		t := a.T
		if a.Typ != nil {
			if _, isSlice := a.Typ.Underlying().(*types.Slice); isSlice {
				t = sApp("s-arr", a.T)
			}
		}
		return boolVal(sAnd(sApp("<=", "0", t), sApp("<", t, vc.alloc(env.heap)))), nil
	case "ref":
		a, err := arg(0)
		if err != nil {
			return Val{}, err
		}
		if a.Typ != nil && types.IsInterface(a.Typ) {
			return mathVal(sApp("i-val", a.T)), nil
		}
		return mathVal(a.T), nil
	case "tagof":
		a, err := arg(0)
		if err != nil {
			return Val{}, err
		}
		return mathVal(sApp("i-tag", a.T)), nil
	case "istype":
		a, err := arg(0)
		if err != nil {
			return Val{}, err
		}
		t := env.lookupType(x.Args[1])
		if t == nil {
			return Val{}, fmt.Errorf("istype: unknown type")
		}
		return boolVal(sEq(sApp("i-tag", a.T), vc.typeId(t))), nil
	case "astype":
		a, err := arg(0)
		if err != nil {
			return Val{}, err
		}
		t := env.lookupType(x.Args[1])
		if t == nil {
			return Val{}, fmt.Errorf("astype: unknown type")
		}
		if !isRefLike(t) {
			// a boxed scalar lives in a cell: astype reads the cell the interface value points to
			l := vc.cellLoc(t, sApp("i-val", a.T))
			return Val{T: vc.loadLoc(env.heap, l), Typ: t}, nil
		}
		r := Val{T: sApp("i-val", a.T), Typ: t}
		vc.attachPtrLoc(&r)
		return r, nil
	case "unchanged":
		// unchanged(e): e evaluated now equals e evaluated in the old state
		now, err := arg(0)
		if err != nil {
			return Val{}, err
		}
		n := env.sub()
		n.heap = env.old
		before, err := n.eval(x.Args[0])
		if err != nil {
			return Val{}, err
		}
		return boolVal(vc.equal(now, before)), nil
	case "samefields":
		// samefields(x, y, Excl1, Excl2...): all fields (recursively through struct-typed fields) are equal
		a, err := arg(0)
		if err != nil {
			return Val{}, err
		}
		b, err := arg(1)
		if err != nil {
			return Val{}, err
		}
		excl := map[string]bool{}
		for _, ex := range x.Args[2:] {
			excl[exprStr(ex)] = true
		}
		var cs []string
		var walk func(av, bv Val) error
		walk = func(av, bv Val) error {
			t := av.Typ
			if pt, ok := t.Underlying().(*types.Pointer); ok {
				t = pt.Elem()
			}
			st, ok := t.Underlying().(*types.Struct)
			if !ok {
				return fmt.Errorf("samefields: not a struct: %s", t)
			}
			for i := 0; i < st.NumFields(); i++ {
				f := st.Field(i)
				if excl[f.Name()] {
					continue
				}
				fa, err := env.fieldOfIdx(av, t, i)
				if err != nil {
					return err
				}
				fb, err := env.fieldOfIdx(bv, t, i)
				if err != nil {
					return err
				}
				if _, isStruct := f.Type().Underlying().(*types.Struct); isStruct {
					if err := walk(fa, fb); err != nil {
						return err
					}
					continue
				}
				cs = append(cs, vc.equal(fa, fb))
			}
			return nil
		}
		if err := walk(a, b); err != nil {
			return Val{}, err
		}
		return boolVal(sAnd(cs...)), nil
	case "calls":
		cn := strings.ReplaceAll(exprStr(x.Args[0]), ".", "__")
		name := "$calls_" + cn
		vc.mapSort(name, "Int")
		return mathVal(sApp("-", vc.hget(env.heap, name), vc.hget(vc.heap0, name))), nil
	case "lastcall":
		// lastcall(Name): position on the path of the most recent call of Name (0: not called in this activation);
		// positions of different names are comparable (one event counter per path)
		cn := strings.ReplaceAll(exprStr(x.Args[0]), ".", "__")
		name := "$calls_$last_" + cn
		vc.mapSort(name, "Int")
		vc.mapSort("$calls_$tick", "Int")
		return mathVal(vc.hget(env.heap, name)), nil
	case "sameheap":
		// sameheap(Type.field, ...): the named field maps are identical to the old state
		var cs []string
		for _, a := range x.Args {
			name := exprStr(a)
			pk := ""
			if env.pkg != nil {
				pk = env.pkg.Name()
			}
			for _, m := range vc.e.resolveModName(pk, name) {
				if _, ok := vc.mapSorts[m]; !ok {
					vc.e.declareMapByName(vc, m)
				}
				if _, ok := vc.mapSorts[m]; !ok {
					return Val{}, fmt.Errorf("sameheap: unknown field %s", name)
				}
				cs = append(cs, sEq(vc.hget(env.heap, m), vc.hget(env.old, m)))
			}
		}
		return boolVal(sAnd(cs...)), nil
	}
	if k, ok := wrapKinds[fname]; ok && len(x.Args) == 1 {
		a, err := arg(0)
		if err != nil {
			return Val{}, err
		}
		r := mathVal(vc.wrap(a.T, k))
		if !k.signed {
			r.Mask = maskOfType(k)
			if a.Mask != nil && a.Mask.Cmp(r.Mask) <= 0 {
				r.T = a.T
				r.Mask = a.Mask
			}
		}
		return r, nil
	}
	if sf, ok := vc.e.specFuncs[fname]; ok {
		if env.depth > 30 {
			return Val{}, fmt.Errorf("spec function recursion too deep: %s", fname)
		}
		if len(x.Args) != len(sf.Params) {
			return Val{}, fmt.Errorf("%s expects %d arguments", fname, len(sf.Params))
		}
		n := env.sub()
		n.depth++
		// spec function bodies see only their parameters (plus heap)
		n.names = map[string]Val{}
		n.fr = nil
		n.at = nil
		if p, ok := vc.e.pkgs[sf.Pkg]; ok {
			n.pkg = p.Types
		}
		n.result = env.result
		for i, p := range sf.Params {
			v, err := env.eval(x.Args[i])
			if err != nil {
				return Val{}, err
			}
			n.names[p] = v
		}
		return n.eval(sf.Body)
	}
	// uninterpreted spec-level function: name starting with '$'? not supported
	if sel, ok := x.Fun.(*ast.SelectorExpr); ok {
		return Val{}, fmt.Errorf("method/function calls are not allowed in specs: %s", exprStr(sel))
	}
	return Val{}, fmt.Errorf("unknown spec function %s", fname)
}

// field i of a struct (value or through pointer, possibly interior)
func (env *Env) fieldOfIdx(base Val, t types.Type, i int) (Val, error) {
	vc := env.vc
	st := t.Underlying().(*types.Struct)
	ft := st.Field(i).Type()
	if _, isPtr := base.Typ.Underlying().(*types.Pointer); isPtr {
		var loc *Loc
		if base.Loc != nil && base.Loc.Kind != locCell {
			loc = &Loc{Kind: locSub, Parent: base.Loc, Field: i, SI: vc.structInfoOf(t), Typ: ft}
		} else {
			loc = vc.fieldLoc(t, i, base.T)
		}
		if _, isStruct := ft.Underlying().(*types.Struct); isStruct {
			return Val{Typ: types.NewPointer(ft), Loc: loc}, nil
		}
		r := Val{T: vc.loadLoc(env.heap, loc), Typ: ft}
		vc.attachPtrLoc(&r)
		return r, nil
	}
	si := vc.structInfoOf(t)
	return Val{T: sApp(si.fields[i], base.T), Typ: ft}, nil
}

func vc0(env *Env) *VC { return env.vc }

// explicit triggers for object quantifiers: every "(select M x)" on the bound variable is a pattern of its own
func (vc *VC) withPatterns(bv, body string) string {
	seen := map[string]bool{}
	var pats []string
	needle := " " + bv + ")"
	idx := 0
	for {
		i := strings.Index(body[idx:], needle)
		if i < 0 {
			break
		}
		end := idx + i + len(needle)
		// walk back to the matching "(select "
		start := strings.LastIndex(body[:idx+i], "(select ")
		if start >= 0 {
			t := body[start:end]
			// the map argument must be a single symbol
			inner := strings.TrimSuffix(strings.TrimPrefix(t, "(select "), needle)
			if !strings.ContainsAny(inner, " ()") && !seen[t] {
				seen[t] = true
				pats = append(pats, t)
				// a map defined by a case split is expanded by the solver: the term is no legal pattern then
				if d, ok := vc.defIdx[inner]; ok && strings.Contains(d.Body, "(ite ") {
					return body
				}
			}
		}
		idx = end
	}
	if len(pats) == 0 || len(pats) > 40 {
		return body
	}
	var b strings.Builder
	b.WriteString("(! ")
	b.WriteString(body)
	for _, p := range pats {
		b.WriteString(" :pattern (" + p + ")")
	}
	b.WriteString(")")
	return b.String()
}

// shiftIndexVar rewrites  forall i. rng(i) => body(i)  into the equivalent  forall i. rng(i - X) => body(i - X)
// when every slice access of the body indexes with (+ X i) for one offset term X: the array reads then
// mention the bound variable alone, which gives the solvers' E-matching a usable trigger.
func shiftIndexVar(bv, rng, body string) [][2]string {
	offs := indexOffsets(bv, body)
	if len(offs) == 0 || len(offs) > 2 {
		return [][2]string{{rng, body}}
	}
	// one equivalent copy per offset term (at most two): each copy offers the trigger of one of the slices
	var out [][2]string
	for _, x := range offs {
		r, b := rng, body
		// nested sums such as (+ off (+ base i)) are peeled layer by layer
		for round := 0; round < 3 && x != "" && x != "0"; round++ {
			r, b = shiftOnce(bv, r, b, x)
			x = ""
			for _, y := range indexOffsets(bv, b) {
				if y != "0" {
					x = y
					break
				}
			}
		}
		out = append(out, [2]string{r, b})
	}
	return out
}

// offset terms X of subterms (+ X bv) with X free of bv, in order of appearance
func indexOffsets(bv, body string) []string {
	var offs []string
	seen := map[string]bool{}
	pre := "(+ "
	for i := 0; i+len(pre) < len(body); i++ {
		if !strings.HasPrefix(body[i:], pre) {
			continue
		}
		j := i + len(pre)
		a1, e1 := sexprAt(body, j)
		if e1 < 0 || e1 >= len(body) || body[e1] != ' ' {
			continue
		}
		a2, e2 := sexprAt(body, e1+1)
		if e2 < 0 || e2 >= len(body) || body[e2] != ')' {
			continue
		}
		if a2 == bv && !containsSym(a1, bv) && !seen[a1] {
			seen[a1] = true
			offs = append(offs, a1)
		}
	}
	return offs
}

func containsSym(s, sym string) bool { return replaceSym(s, sym, "\x00") != s }

func shiftOnce(bv, rng, body, x string) (string, string) {
	mark := "\x00SHIFTED\x00"
	nb := strings.ReplaceAll(body, "(+ "+x+" "+bv+")", mark)
	back := "(- " + bv + " " + x + ")"
	nb = replaceSym(nb, bv, back)
	nb = strings.ReplaceAll(nb, mark, bv)
	nr := replaceSym(rng, bv, back)
	return nr, nb
}

// sexprAt returns the s-expression (atom or balanced list) starting at position i and the index just after it
func sexprAt(s string, i int) (string, int) {
	if i >= len(s) {
		return "", -1
	}
	if s[i] != '(' {
		j := i
		for j < len(s) && s[j] != ' ' && s[j] != ')' && s[j] != '(' {
			j++
		}
		return s[i:j], j
	}
	d := 0
	for j := i; j < len(s); j++ {
		switch s[j] {
		case '(':
			d++
		case ')':
			d--
			if d == 0 {
				return s[i : j+1], j + 1
			}
		}
	}
	return "", -1
}

// replaceSym replaces whole-symbol occurrences of sym
func replaceSym(s, sym, with string) string {
	var b strings.Builder
	for i := 0; i < len(s); {
		if strings.HasPrefix(s[i:], sym) {
			before := i == 0 || s[i-1] == ' ' || s[i-1] == '('
			after := i+len(sym) == len(s) || s[i+len(sym)] == ' ' || s[i+len(sym)] == ')'
			if before && after {
				b.WriteString(with)
				i += len(sym)
				continue
			}
		}
		b.WriteByte(s[i])
		i++
	}
	return b.String()
}
